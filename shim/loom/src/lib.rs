//! A façade crate named `loom` that routes the `loom` primitives used by
//! `async-event` (built with `--cfg async_event_loom`) to `shuttle`, so that
//! its internal mutex and atomics become scheduling points of the simulator
//! instead of blocking the single OS thread all simulated threads share.

pub mod sync {
    pub use shuttle::sync::{Mutex, MutexGuard};
    pub use std::sync::Arc;

    pub mod atomic {
        pub use shuttle::sync::atomic::{fence, AtomicBool, AtomicUsize, Ordering};
    }
}

pub mod cell {
    /// A plain `UnsafeCell` with loom's closure-based accessors.
    #[derive(Debug)]
    pub struct UnsafeCell<T>(std::cell::UnsafeCell<T>);

    impl<T> UnsafeCell<T> {
        pub fn new(data: T) -> UnsafeCell<T> {
            UnsafeCell(std::cell::UnsafeCell::new(data))
        }
        pub fn with<R>(&self, f: impl FnOnce(*const T) -> R) -> R {
            f(self.0.get())
        }
        pub fn with_mut<R>(&self, f: impl FnOnce(*mut T) -> R) -> R {
            f(self.0.get())
        }
    }
}
