#!/usr/bin/env python3
"""Writes /verif/MANIFEST.json from the table below (kept in one place so the
manifest is always valid and consistent with the checks that exist)."""
import json, subprocess

CLAIMED = {
 "C01": ("exploration", "seeded agendas (driver/model requests of every kind, ns-to-hour scales, equal deadlines, cancels; thorough adds a concurrent scheduler thread) stepped with step/step_until/process_*; the history is replayed against a reference agenda model: landing times, firing times, exactly-once firing, monotone time (API and time-write trace), pending deadlines strictly in the future at every quiescent point.", "trusts the reference agenda (reconstructed from logged requests, not from the implementation's queue) and the time-write trace point; SC executions only", "deterministic simulation of simulated time (agenda histories) + reference agenda model", "DESIGN.md §5 C01"),
 "C07": ("exploration", "same-deadline bursts from the global scheduler and from model contexts (one-shot, keyed, periodic, EventSource actions, capacity-1 targets) on ST and MT; processing order per (origin, target, time) must follow scheduling order (periodic occurrences ordered by the firing of the previous occurrence).", "SC executions only; requests whose call windows overlap (concurrent threads) are not ordered", "deterministic simulation + per-origin sequence oracle", "DESIGN.md §5 C07"),
 "C08": ("exploration", "valid and invalid requests (past/now deadlines, zero periods, Scheduler::schedule with EventSource actions) from driver, models and 0-2 scheduler threads racing step()/step_until(); accept/reject is judged against every time value held during the call window (time-write trace), accepted requests against the reference agenda; worker processes run under a watchdog and an address-space limit so that a call that never returns is reported with its case.", "SC executions only; trusts the time-write trace point", "deterministic simulation with concurrent scheduler threads (fault X) and invalid requests (fault I) + validation oracle + process watchdog", "DESIGN.md §5 C08"),
 "C09": ("exploration", "keyed one-shot/periodic events cancelled through key, clone and auto-key drop by the driver between steps, by the same model at the same time stamp, after firing, twice; a firing after a completed cancellation (before the step, or earlier in the same model) is a violation, every non-cancelled action must still fire.", "SC executions only; cancellations concurrent with the step impose nothing, as the statement says", "deterministic simulation + cancellation oracle over the history", "DESIGN.md §5 C09"),
 "C10": ("exploration", "1-4 periodic series (1 ns..hours, commensurable periods, optional cancellation at a fixed simulated time) executed under 4-6 different partitions of the horizon into step/step_until calls and on ST/MT; each series must fire exactly at t0+k*p and the per-series log must not depend on the partition (metamorphic).", "trusts the arithmetic of the reference (u64 ns); SC executions only", "deterministic simulation of simulated time + arithmetic-progression and partition-metamorphic oracles", "DESIGN.md §5 C10"),
 "C18": ("fault_enumeration", "agendas stepped under a scripted recording clock: every synchronize call index gets a scripted answer (Synchronized / OutOfSync(lag)), tolerance unset / 0 / between lags / huge; the clock protocol (exactly one synchronize per new time, ordering w.r.t. handlers, OutOfSync reported before model code) is checked on the history.", "the fault space (answer per call index x tolerance class) is sampled from the seed, not enumerated exhaustively; SC executions only", "deterministic simulation with clock-lag fault injection (fault K) + clock-protocol oracle", "DESIGN.md §5 C18"),
 "C11": ("fault_enumeration", "a fault-free base case (model hierarchy, event/query traffic, driver and model scheduling, every kind of run command) and one variant per (fault kind, injection point): model panic at init / invocation 0-2 of 2-3 models with str/String/u32 payloads, 3 dropped mailboxes, 2 orphan mailboxes, a query loop, a saturating loop, step time-out at blocking wait 0-4 (thorough 0-7) on ST and MT, clock lag above the tolerance at synchronisation 1-4 (1-7); each under several schedules. The reported error is judged against the causes that actually occurred in the call window (kind, model name, payload, lag); after the first fatal error every further run attempt must return Terminated without touching the time (API and time-write trace), without panicking and - where no straggling worker can exist - without running model code; non-fatal errors must leave the simulation usable.", "fault space enumerated within the stated bounds per generated base case, base cases and schedules sampled; SC executions only; model panics run under a vendored shuttle-engine patched to tolerate panics that the code under test catches", "deterministic simulation with fault enumeration (panic, dropped/orphan mailbox, stall, time-out, clock lag) + failure-classification and Terminated-contract oracles", "DESIGN.md §5 C11"),
 "C19": ("fault_enumeration", "every fault variant of the C11 enumeration (none, model panic, dropped/orphan mailbox, query loop, saturating loop, step time-out, clock lag) of a base bench with small mailboxes, leaked wakers and optional wake-on-drop handler futures is cut after every command index 0..=n and the simulation is dropped there, before or after its external handles (scheduler, keys, sources, sinks, addresses). Counted drop tokens in every model, message, reply and handler future: all released exactly once, nothing released and no model code run after drop returned; the drop returns and every executor thread has finished (simulator deadlock detection); no panic escapes.", "drop point and fault space enumerated within the stated bounds per generated base case, base cases and schedules sampled; SC executions only; memory release of the task allocations themselves is not observed by E1 (only the objects they own)", "deterministic simulation with crash-point (drop) enumeration x fault enumeration + drop-token conservation oracle", "DESIGN.md §5 C19"),
 "C17": ("exploration", "benches whose models write to EventBuffer (capacity 1-8) and EventSlot sinks through plain/map/filter_map connections with 0 to several times the capacity per command, while the driver reads (0..capacity+2), closes and reopens them between commands; reads are compared with a reference drop-oldest FIFO / last-value slot with an open flag: exactly on the single-threaded executor (the log order is the write order), and on the multi-threaded executor by the order-insensitive consequences (retained count, per-connection order and suffix, exactly-once yielding, slot value among the per-connection last writes).", "the pure operation-sequence part of the statement has no schedule in it and is only sampled through simulated writers; concurrent reader threads are not exercised; SC executions only", "deterministic simulation of models writing to sinks + reference FIFO/slot model over the recorded history", "DESIGN.md §5 C17"),
 "C14": ("exploration", "requestors with 0-6 repliers (plain/map/filter_map connections, capacity 1-2 mailboxes so that sub-sends suspend, repliers that query in turn), spurious wake-ups of the requesting task from other models, query sources and direct process_query, and output/requestor port clones that gain a connection at run time (connect on one clone, causally later send through another) on ST and MT under seeded schedules; every completed query is compared with the connection table: one reply per accepting connection, computed by that replier from the mapped request, in connection order, returned only after all repliers finished; every send through a clone must reach the connections added before it.", "the TaskSet / CachedRwLock bookkeeping is exercised through the real broadcaster only (no isolated component harness); connections added concurrently with a send may or may not be used; SC executions only", "deterministic simulation: shuttle-driven whole-library runs with spurious-wake fault injection + connection-table oracle for replies and clones", "DESIGN.md §5 C14"),
 # id: (level category, level text, level note, technique, design_ref)
 "C02": ("exploration", "seeded search over MT schedules (uniform/sticky random, PCT depth 1-6, round robin) of generated acyclic benches with capacity 1-2 mailboxes; causal order judged offline with vector clocks over completed port operations. Evidence, not proof: interleavings are sampled at atomic-operation granularity under sequential consistency.", "trusts shuttle's execution model (SC atomics), the harness log (std primitives, no scheduling points) and the offline vector-clock reconstruction", "deterministic simulation: shuttle-driven whole-library runs + offline vector-clock oracle", "DESIGN.md §5 C02"),
 "C03": ("exploration", "seeded search over benches (plain/map/filter_map edges to models and sinks, capacities 1-16) and schedules on ST and MT; every logged send is compared with the connection table (expected deliveries) as a multiset.", "trusts the connection-table reference (a few lines) and the harness log; SC executions only", "deterministic simulation: shuttle-driven whole-library runs + conservation oracle against the connection table", "DESIGN.md §5 C03"),
 "C04": ("exploration", "each content-only case runs on ST and on MT(2,3,4[,8,16]) under many schedules; quiescence is judged from the ground-truth push/pop trace at every return and the per-command multisets are compared across executors.", "SC executions only; weak-memory behaviours of the parking protocol are outside E1", "deterministic simulation: differential ST vs MT under seeded schedules + trace-based quiescence oracle", "DESIGN.md §5 C04"),
 "C05": ("exploration", "MT benches whose handlers leak their task's waker and wake/drop other models' leaked wakers at arbitrary instants; a per-model busy flag and interval nesting are checked on every execution.", "SC executions only", "deterministic simulation with spurious-wake fault injection + busy-flag invariant", "DESIGN.md §5 C05"),
 "C06": ("exploration", "benches with query loops, saturating event loops, orphan mailboxes and sub-models (and drainable benches, on which any report is a false positive); the report is compared with pushes-pops per mailbox from the ground-truth trace.", "trusts the trace points (push succeeded / message popped) as ground truth; SC executions only", "deterministic simulation + exact comparison of stall reports with a ground-truth mailbox trace", "DESIGN.md §5 C06"),
 "C16": ("exploration", "model hierarchies of depth 0-3 with init-time events and queries under seeded schedules; init log, names and conservation at the end of init are checked.", "SC executions only", "deterministic simulation of hierarchical benches + init-order oracle", "DESIGN.md §5 C16"),
}

NOT_YET = {
}

NOT_APPLICABLE = {
 "C20": "pure sequential data structure (single-owner &mut self containers): no schedule, clock, fault or interleaving can influence it, so deterministic simulation has nothing to decide; see DESIGN.md §6",
}

def main():
    props = [json.loads(l) for l in open('/verif/properties.jsonl')]
    ids = [p['id'] for p in props]
    checks = []
    for pid in ids:
        if pid in CLAIMED:
            cat, text, note, tech, ref = CLAIMED[pid]
            checks.append({
                "property_id": pid,
                "quick_cmd": f"./check {pid} quick",
                "thorough_cmd": f"./check {pid} thorough",
                "evidence_file": f"/verif/evidence/{pid}.json",
                "replay_cmd_template": "./check --replay {path}",
                "engine": "nxv",
                "level_claimed": {"category": cat, "text": text, "design_ref": ref},
                "level_note": note,
                "technique": tech,
            })
    na = []
    for pid in ids:
        if pid in CLAIMED:
            continue
        if pid in NOT_APPLICABLE:
            na.append({"property_id": pid, "reason": NOT_APPLICABLE[pid]})
        else:
            na.append({"property_id": pid, "reason": NOT_YET.get(pid, "not claimed yet: the check for this property is still being built in this session (see DESIGN.md §5 for the plan); no verdict is given")})
    commits = subprocess.run(["git", "-C", "/repo", "log", "--format=%h %s", "--grep=^verif:"], capture_output=True, text=True).stdout.strip().splitlines()
    manifest = {
        "version": 1,
        "setup_cmd": "./setup.sh",
        "hooks": {
            "guard": "--cfg nexosim_verif (plus --cfg nexosim_verif_shuttle to select the shuttle backend)",
            "enable": "RUSTFLAGS='--cfg nexosim_verif --cfg nexosim_verif_shuttle --cfg async_event_loom' cargo build --release --offline (workspace /verif, shadow manifest /verif/shadow/nexosim pointing at /repo/nexosim/src)",
            "baseline_off_cmd": "cd /repo && cargo nextest run --workspace --no-fail-fast --tool-config-file pb:/w/lib/nextest.toml --profile pb --test-threads 8 --offline || (cd /repo && cargo test --workspace --no-fail-fast --offline)",
            "source_commits": [c.split()[0] for c in commits],
            "add_only": True,
        },
        "engines": [
            {"name": "nxv", "path": "/verif/sim", "serves_properties": sorted(CLAIMED.keys()), "kind_free_text": "E1: deterministic simulation of the real NeXosim library under shuttle 0.9.3 with a harness-owned recording scheduler (seeded uniform/sticky random, PCT, round robin, replay), seeded workload and fault generation, history oracles against small reference models; one worker process per core"},
        ],
        "checks": checks,
        "not_applicable": na,
        "notes": "Exit codes of ./check: 0 held, 1 violation (VIOLATION line + replay file under /verif/replays), 2 harness error. Known findings: /verif/known_findings.json. Seeded defects used for sensitivity: /verif/seeded/.",
    }
    json.dump(manifest, open('/verif/MANIFEST.json', 'w'), indent=1)
    print("claimed:", len(checks), "not applicable / not yet:", len(na))

main()
