//! Structured view of the recorded event log.

use std::collections::BTreeMap;

use crate::ctx::{Actor, Ev, Res, SchedMode, TraceEv, T};

#[derive(Clone, Debug)]
pub struct Handler {
    pub node: u16,
    pub msg: u64,
    pub kind: u8,
    pub salt: u32,
    pub ttl: u8,
    pub via: u32,
    pub query: bool,
    pub time: T,
    pub sid: Option<u32>,
    pub begin: u64,
    pub end: Option<u64>,
    pub thread: u32,
    pub overlap: bool,
    pub cmd: u16,
}

#[derive(Clone, Debug)]
pub struct SendOp {
    pub actor: Actor,
    pub port: u16,
    pub msg: u64,
    pub kind: u8,
    pub query: bool,
    pub salt: u32,
    pub ttl: u8,
    pub begin: u64,
    pub end: Option<u64>,
    pub replies: Vec<(u16, u64, u32, u32)>,
    pub cmd: u16,
}

#[derive(Clone, Debug)]
pub struct SchedReq {
    pub actor: Actor,
    pub sid: u32,
    pub target: u16,
    pub kind: u8,
    pub mode: SchedMode,
    pub rel: Option<u64>,
    pub abs: Option<T>,
    pub via_action: bool,
    pub salt: u32,
    pub call: u64,
    pub ret: Option<u64>,
    pub res: Option<Res>,
    pub cmd: u16,
    /// Handler (index into `handlers`) inside which the request was made.
    pub in_handler: Option<usize>,
}

#[derive(Clone, Debug)]
pub struct CancelReq {
    pub actor: Actor,
    pub sid: u32,
    pub how: u8,
    pub call: u64,
    pub ret: Option<u64>,
    pub in_handler: Option<usize>,
}

#[derive(Clone, Debug)]
pub struct CmdRec {
    pub idx: u16,
    pub text: String,
    pub begin: u64,
    pub end: Option<u64>,
    pub res: Option<Res>,
    pub t_before: T,
    pub t_after: Option<T>,
    pub next_deadline: Option<T>,
}

#[derive(Clone, Debug)]
pub struct InitRec {
    pub node: u16,
    pub name: String,
    pub begin: u64,
    pub end: Option<u64>,
    pub thread: u32,
}

#[derive(Default, Debug)]
pub struct Hist {
    pub cmds: Vec<CmdRec>,
    pub handlers: Vec<Handler>,
    pub sends: Vec<SendOp>,
    pub scheds: Vec<SchedReq>,
    pub cancels: Vec<CancelReq>,
    pub inits: Vec<InitRec>,
    pub trace: Vec<(u64, TraceEv)>,
    pub syncs: Vec<(u64, T, Option<u64>)>,
    /// (seq, sink, number of events asked for, events obtained as (msg id, via)).
    pub sink_reads: Vec<(u64, u16, u8, Vec<(u64, u32)>)>,
    pub sink_writes: Vec<(u64, u16, u64, u32, u32)>,
    pub sink_ctl: Vec<(u64, u16, bool)>,
    pub time_reads: Vec<(u64, Actor, T)>,
    pub panics: Vec<(u64, u16, String)>,
    pub drop_begin: Option<u64>,
    pub drop_end: Option<u64>,
    pub notes: Vec<(u64, String)>,
    pub len: u64,
}

impl Hist {
    pub fn build(log: &[Ev]) -> Hist {
        let mut h = Hist::default();
        h.len = log.len() as u64;
        let mut cur_cmd: u16 = 0;
        // open handler per node (index into handlers)
        let mut open: BTreeMap<u16, usize> = BTreeMap::new();
        let mut open_send: BTreeMap<(Actor, u64), usize> = BTreeMap::new();
        let mut open_sched: BTreeMap<u32, usize> = BTreeMap::new();
        let mut open_cancel: BTreeMap<(Actor, u32), usize> = BTreeMap::new();
        for (i, ev) in log.iter().enumerate() {
            let seq = i as u64;
            match ev {
                Ev::CmdBegin { idx, cmd, time } => {
                    cur_cmd = *idx;
                    h.cmds.push(CmdRec { idx: *idx, text: cmd.clone(), begin: seq, end: None, res: None, t_before: *time, t_after: None, next_deadline: None });
                }
                Ev::CmdEnd { idx, res, time, next_deadline } => {
                    if let Some(c) = h.cmds.iter_mut().rev().find(|c| c.idx == *idx) {
                        c.end = Some(seq);
                        c.res = Some(res.clone());
                        c.t_after = Some(*time);
                        c.next_deadline = *next_deadline;
                    }
                }
                Ev::InitBegin { node, name, thread } => {
                    h.inits.push(InitRec { node: *node, name: name.clone(), begin: seq, end: None, thread: *thread });
                }
                Ev::InitEnd { node } => {
                    if let Some(r) = h.inits.iter_mut().rev().find(|r| r.node == *node) {
                        r.end = Some(seq);
                    }
                }
                Ev::HBegin { node, msg, kind, salt, ttl, via, query, time, sched, thread, overlap } => {
                    h.handlers.push(Handler {
                        node: *node,
                        msg: *msg,
                        kind: *kind,
                        salt: *salt,
                        ttl: *ttl,
                        via: *via,
                        query: *query,
                        time: *time,
                        sid: sched.map(|s| s.0),
                        begin: seq,
                        end: None,
                        thread: *thread,
                        overlap: *overlap,
                        cmd: cur_cmd,
                    });
                    open.insert(*node, h.handlers.len() - 1);
                }
                Ev::HEnd { node, msg } => {
                    if let Some(ix) = open.get(node).copied() {
                        if h.handlers[ix].msg == *msg {
                            h.handlers[ix].end = Some(seq);
                            open.remove(node);
                        }
                    }
                }
                Ev::SendBegin { actor, port, msg, kind, query, salt, ttl } => {
                    h.sends.push(SendOp {
                        actor: *actor,
                        port: *port,
                        msg: *msg,
                        kind: *kind,
                        query: *query,
                        salt: *salt,
                        ttl: *ttl,
                        begin: seq,
                        end: None,
                        replies: vec![],
                        cmd: cur_cmd,
                    });
                    open_send.insert((*actor, *msg), h.sends.len() - 1);
                }
                Ev::SendEnd { actor, msg, replies, .. } => {
                    if let Some(ix) = open_send.remove(&(*actor, *msg)) {
                        h.sends[ix].end = Some(seq);
                        h.sends[ix].replies = replies.clone();
                    }
                }
                Ev::SchedCall { actor, sid, target, kind, mode, rel, abs, via_action, salt, .. } => {
                    let in_handler = match actor {
                        Actor::Node(n) => open.get(n).copied(),
                        _ => None,
                    };
                    h.scheds.push(SchedReq {
                        actor: *actor,
                        sid: *sid,
                        target: *target,
                        kind: *kind,
                        mode: mode.clone(),
                        rel: *rel,
                        abs: *abs,
                        via_action: *via_action,
                        salt: *salt,
                        call: seq,
                        ret: None,
                        res: None,
                        cmd: cur_cmd,
                        in_handler,
                    });
                    open_sched.insert(*sid, h.scheds.len() - 1);
                }
                Ev::SchedRet { sid, res, .. } => {
                    if let Some(ix) = open_sched.remove(sid) {
                        h.scheds[ix].ret = Some(seq);
                        h.scheds[ix].res = Some(res.clone());
                    }
                }
                Ev::CancelCall { actor, sid, how } => {
                    let in_handler = match actor {
                        Actor::Node(n) => open.get(n).copied(),
                        _ => None,
                    };
                    h.cancels.push(CancelReq { actor: *actor, sid: *sid, how: *how, call: seq, ret: None, in_handler });
                    open_cancel.insert((*actor, *sid), h.cancels.len() - 1);
                }
                Ev::CancelRet { actor, sid } => {
                    if let Some(ix) = open_cancel.remove(&(*actor, *sid)) {
                        h.cancels[ix].ret = Some(seq);
                    }
                }
                Ev::TimeRead { actor, time } => h.time_reads.push((seq, *actor, *time)),
                Ev::ClockSync { time, answer_lag } => h.syncs.push((seq, *time, *answer_lag)),
                Ev::SinkRead { sink, asked, items } => h.sink_reads.push((seq, *sink, *asked, items.clone())),
                Ev::SinkCtl { sink, open } => h.sink_ctl.push((seq, *sink, *open)),
                Ev::SinkWrite { sink, msg, via, salt } => h.sink_writes.push((seq, *sink, *msg, *via, *salt)),
                Ev::Trace(t) => h.trace.push((seq, *t)),
                Ev::DropSimBegin => h.drop_begin = Some(seq),
                Ev::DropSimEnd => h.drop_end = Some(seq),
                Ev::PanicInjected { node, payload } => h.panics.push((seq, *node, payload.clone())),
                Ev::Note(s) => h.notes.push((seq, s.clone())),
                Ev::AuxBegin { .. } | Ev::AuxEnd { .. } | Ev::Comp(_) => {}
            }
        }
        h
    }

    /// The command record with the given index.
    pub fn cmd(&self, idx: u16) -> Option<&CmdRec> {
        self.cmds.iter().find(|c| c.idx == idx)
    }

    /// First fatal command result, if any, with the command index.
    pub fn first_fatal(&self) -> Option<(u16, &Res)> {
        self.cmds.iter().find_map(|c| c.res.as_ref().filter(|r| r.is_fatal()).map(|r| (c.idx, r)))
    }

    /// A hash of the observable history (handler order and results) used to
    /// count distinct histories.
    pub fn observable_hash(&self) -> u64 {
        let mut hs = crate::rng::Hasher64::new();
        for x in &self.handlers {
            hs.add(x.node as u64);
            hs.add(x.kind as u64);
            hs.add(x.salt as u64);
            hs.add(x.via as u64);
            hs.add(x.time.0 as u64);
            hs.add(x.time.1 as u64);
        }
        for c in &self.cmds {
            hs.add_str(c.res.as_ref().map(|r| r.class()).unwrap_or("none"));
            if let Some(t) = c.t_after {
                hs.add(t.0 as u64);
                hs.add(t.1 as u64);
            }
        }
        hs.finish()
    }
}
