//! Time and scheduling oracles: chronology (C01), same-time order (C07),
//! request validation (C08), cancellation (C09), periodic actions (C10),
//! clock synchronisation (C18).

use std::collections::BTreeMap;

use super::agenda::{add_ns, Action, Agenda};
use super::*;
use crate::ctx::{Actor, T};
use crate::hist::CmdRec;

fn is_step(text: &str) -> bool {
    text.starts_with("Step")
}

/// Number of handler invocations one occurrence of the action produces and
/// the nodes they run on.
fn fanout(case: &Case, h: &Hist, a: &Action) -> Vec<u16> {
    let r = &h.scheds[a.req];
    if !a.via_action {
        return if case.in_sim(a.target as usize) { vec![a.target] } else { vec![] };
    }
    // The source index is in the command text; recover the edges from the salt
    // by looking at which source the command named.
    let cmd = h.cmd(r.cmd);
    let src = cmd.and_then(|c| c.text.split("Action(").nth(1)).and_then(|s| s.split(')').next()).and_then(|s| s.parse::<usize>().ok());
    let Some(src) = src else { return vec![] };
    let Some(spec) = case.sources.get(src) else { return vec![] };
    // The salt of the scheduled message is carried by its firings; when nothing
    // fired it cannot be recovered from the log, so use the first handler if any.
    let salt = a.firings.first().map(|hx| h.handlers[*hx].salt);
    let mut v = Vec::new();
    for e in &spec.edges {
        if let Target::Node(t) = e.target {
            let acc = match salt {
                Some(s) => e.accepts(s),
                None => e.filter.is_none(),
            };
            if acc && case.in_sim(t as usize) {
                v.push(t);
            }
        }
    }
    v.sort();
    v
}

/// The stepping command (if any) during which time `d` is reached.
fn due_cmd<'a>(h: &'a Hist, d: T) -> Option<&'a CmdRec> {
    h.cmds.iter().find(|c| is_step(&c.text) && c.t_before < d && c.t_after.map(|t| d <= t).unwrap_or(false))
}

/// Time up to which every command completed successfully.
fn ok_horizon(h: &Hist) -> Option<T> {
    let mut t = None;
    for c in &h.cmds {
        match &c.res {
            Some(Res::Ok) | Some(Res::BadQuery) | Some(Res::InvalidDeadline) => t = c.t_after.or(t),
            _ => break,
        }
    }
    t
}

#[derive(Default)]
pub struct Firing {
    pub wrong_time: Vec<Violation>,
    pub missing: Vec<Violation>,
    pub duplicate: Vec<Violation>,
    pub rejected_fired: Vec<Violation>,
    pub after_cancel: Vec<Violation>,
}

pub fn firing_rules(case: &Case, h: &Hist, ag: &Agenda) -> Firing {
    let mut f = Firing::default();
    let horizon = ok_horizon(h);
    for a in &ag.actions {
        let r = &h.scheds[a.req];
        let what = format!("action sid={} ({:?} by {:?}, target {}, {:?}, rel={:?} abs={:?})", a.sid, r.mode, r.actor, a.target, r.res, r.rel, r.abs);
        if !a.accepted {
            if !a.firings.is_empty() {
                f.rejected_fired.push(Violation::new("rejected_request_fired", format!("{} was rejected but fired {} times", what, a.firings.len())));
            }
            continue;
        }
        let nodes = fanout(case, h, a);
        let per_occ = nodes.len();
        if per_occ == 0 {
            continue;
        }
        // Group firings into occurrences by handler time.
        let mut occs: Vec<(T, Vec<usize>)> = Vec::new();
        for hx in &a.firings {
            let t = h.handlers[*hx].time;
            match occs.last_mut() {
                Some((lt, v)) if *lt == t => v.push(*hx),
                _ => occs.push((t, vec![*hx])),
            }
        }
        // Choose the first-deadline candidate consistent with the first firing.
        let cand = if a.d0.len() <= 1 {
            0
        } else {
            occs.first().and_then(|(t, _)| a.d0.iter().position(|d| d == t)).unwrap_or(0)
        };
        if a.d0.is_empty() {
            continue;
        }
        let ambiguous = a.d0.len() > 1 && occs.is_empty();
        // Firing times.
        for (k, (t, hs)) in occs.iter().enumerate() {
            let exp = a.occ(cand, k as u64);
            if a.period.is_none() && k >= 1 {
                f.duplicate.push(Violation::new("fired_twice", format!("{} is a one-shot but fired again at {:?}", what, t)));
                continue;
            }
            if *t != exp {
                f.wrong_time.push(Violation::new("fired_at_wrong_time", format!("{}: occurrence {} fired with simulation time {:?}, expected {:?}", what, k, t, exp)));
            }
            if hs.len() > per_occ {
                f.duplicate.push(Violation::new("fired_twice", format!("{}: occurrence {} at {:?} produced {} handler invocations, expected {}", what, k, t, hs.len(), per_occ)));
            }
            // Cancellation: forbidden firings.
            for hx in hs {
                let x = &h.handlers[*hx];
                let cmd_begin = h.cmd(x.cmd).map(|c| c.begin).unwrap_or(0);
                for (_, cret, ci) in &a.cancels {
                    let Some(cret) = cret else { continue };
                    let c = &h.cancels[*ci];
                    let before_step = *cret < cmd_begin;
                    let same_model_earlier = !a.via_action
                        && *cret < x.begin
                        && c.in_handler.map(|ch| h.handlers[ch].node == x.node && h.handlers[ch].begin < x.begin).unwrap_or(false);
                    if before_step || same_model_earlier {
                        f.after_cancel.push(Violation::keyed(
                            "fired_after_cancel",
                            if before_step { "before_step" } else { "same_model" },
                            format!("{} fired at {:?} (handler seq {}) although its key was cancelled (how={}) at seq {}..{}", what, x.time, x.begin, c.how, c.call, cret),
                        ));
                        break;
                    }
                }
            }
        }
        // Missing occurrences up to the horizon.
        if ambiguous {
            continue;
        }
        let Some(hz) = horizon else { continue };
        let first_cancel_call = a.cancels.iter().map(|c| c.0).min();
        let max_k: u64 = if a.period.is_some() { 4096 } else { 1 };
        for k in 0..max_k {
            let d = a.occ(cand, k);
            if d > hz {
                break;
            }
            let Some(dc) = due_cmd(h, d) else { continue };
            if !matches!(dc.res, Some(Res::Ok)) {
                break;
            }
            // The request must have been accepted before the due command began
            // (or inside it, by a handler running at an earlier time).
            if r.ret.map(|x| x > dc.end.unwrap_or(u64::MAX)).unwrap_or(true) {
                continue;
            }
            if let Some(cc) = first_cancel_call {
                if cc < dc.end.unwrap_or(u64::MAX) {
                    break; // a cancellation was (being) issued: nothing is required any more
                }
            }
            let fired = occs.get(k as usize).map(|(_, v)| v.len()).unwrap_or(0);
            if (k as usize) >= occs.len() || fired < per_occ {
                f.missing.push(Violation::new(
                    "occurrence_not_fired",
                    format!("{}: occurrence {} due at {:?} (during `{}`) fired {} of {} expected times; simulation reached {:?}", what, k, d, dc.text, fired, per_occ, hz),
                ));
                if a.period.is_some() {
                    break;
                }
            }
        }
    }
    f
}

/// C15 on whole simulations: every explicit read of the simulation time (`Context::time` in a
/// handler, `Scheduler::time` on another thread) returns a value the simulation had been given by
/// then (ground truth: the trace of time writes, logged before a written value becomes readable),
/// never goes backwards for one reader, and in a handler equals the current time (the time only
/// changes between runs of the executor).
pub fn reads(_case: &Case, h: &Hist, ag: &Agenda) -> Vec<Violation> {
    let mut v = Vec::new();
    let mut last: std::collections::BTreeMap<String, T> = Default::default();
    for (seq, actor, t) in &h.time_reads {
        let held: Vec<T> = ag.time_writes.iter().filter(|(ws, _)| ws < seq).map(|(_, x)| *x).collect();
        if held.is_empty() {
            continue;
        }
        if !held.contains(t) {
            v.push(Violation::new("c15_time_never_held", format!("{:?} read the time {:?} at seq {}, a value the simulation never had (it had {:?})", actor, t, seq, held)));
            continue;
        }
        let key = format!("{:?}", actor);
        if let Some(prev) = last.get(&key) {
            if t < prev {
                v.push(Violation::new("c15_time_went_back", format!("{:?} read {:?} at seq {} after having read {:?}", actor, t, seq, prev)));
            }
        }
        last.insert(key, *t);
        if matches!(actor, Actor::Node(_)) && held.last() != Some(t) {
            v.push(Violation::new("c15_stale_time_in_handler", format!("{:?} read {:?} at seq {} inside a handler while the simulation time was {:?}", actor, t, seq, held.last())));
        }
    }
    v
}

/// C01.
pub fn chronology(case: &Case, h: &Hist, ag: &Agenda) -> Vec<Violation> {
    let mut v = Vec::new();
    // (1) time never decreases.
    for w in ag.time_writes.windows(2) {
        if w[1].1 < w[0].1 {
            v.push(Violation::keyed("c01_time_decreased", "trace", format!("simulation time written as {:?} (seq {}) after {:?} (seq {})", w[1].1, w[1].0, w[0].1, w[0].0)));
        }
    }
    let mut last: Option<T> = None;
    for c in &h.cmds {
        if let Some(t) = c.t_after {
            if let Some(l) = last {
                if t < l {
                    v.push(Violation::keyed("c01_time_decreased", "api", format!("time() after `{}` is {:?}, earlier than {:?} before", c.text, t, l)));
                }
            }
            last = Some(t);
        }
        // process_* never change the time.
        if c.text.starts_with("Process") || c.text.starts_with("Sched") || c.text.starts_with("Cancel") {
            if let Some(t) = c.t_after {
                if t != c.t_before {
                    v.push(Violation::new("c01_process_changed_time", format!("`{}` changed the time from {:?} to {:?}", c.text, c.t_before, t)));
                }
            }
        }
    }
    // (2) a handler sees the simulation time of that moment; handler times never decrease.
    let mut prev: Option<(T, u64)> = None;
    for x in &h.handlers {
        if let Some(t) = ag.time_at(x.begin) {
            if t != x.time {
                v.push(Violation::new("c01_handler_time_mismatch", format!("handler of node {} (seq {}) read time {:?} while the simulation time was {:?}", x.node, x.begin, x.time, t)));
            }
        }
        if let Some((pt, ps)) = prev {
            if x.time < pt {
                v.push(Violation::keyed("c01_time_decreased", "handler", format!("handler at seq {} ran at {:?} after a handler at seq {} ran at {:?}", x.begin, x.time, ps, pt)));
            }
        }
        prev = Some((x.time, x.begin));
    }
    // (3)+(5) firings.
    let f = firing_rules(case, h, ag);
    v.extend(f.wrong_time);
    v.extend(f.missing);
    v.extend(f.duplicate);
    // (4) step / step_until landing times.
    let concurrent = h.scheds.iter().any(|r| matches!(r.actor, Actor::Aux(_))) || h.cancels.iter().any(|c| matches!(c.actor, Actor::Aux(_)));
    for c in &h.cmds {
        if !is_step(&c.text) {
            continue;
        }
        let (Some(Res::Ok), Some(t_after)) = (c.res.as_ref(), c.t_after) else { continue };
        if c.text.starts_with("StepUntil") {
            // The target is encoded in the command; recompute it.
            if let Some(target) = step_until_target(case, c) {
                if t_after != target {
                    v.push(Violation::new("c01_step_until_time", format!("`{}` returned Ok with time {:?}, expected {:?}", c.text, t_after, target)));
                }
            }
            continue;
        }
        if concurrent {
            continue;
        }
        // Earliest pending non-cancelled deadline at command begin.
        let mut best: Option<T> = None;
        for a in &ag.actions {
            if !a.accepted || a.d0.len() != 1 {
                continue;
            }
            let r = &h.scheds[a.req];
            if r.ret.map(|x| x > c.begin).unwrap_or(true) {
                continue;
            }
            if a.cancels.iter().any(|(_, ret, _)| ret.map(|x| x < c.begin).unwrap_or(false)) {
                continue;
            }
            // next occurrence strictly after the time before the command
            let next = match a.period {
                None => {
                    let fired_before = a.firings.iter().any(|hx| h.handlers[*hx].begin < c.begin);
                    if fired_before || a.d0[0] <= c.t_before { None } else { Some(a.d0[0]) }
                }
                Some(_) => (0..100_000u64).map(|k| a.occ(0, k)).find(|d| *d > c.t_before),
            };
            if let Some(d) = next {
                if best.map(|b| d < b).unwrap_or(true) {
                    best = Some(d);
                }
            }
        }
        let expected = best.unwrap_or(c.t_before);
        if t_after != expected {
            v.push(Violation::new("c01_step_time", format!("`{}` moved the time from {:?} to {:?}; the earliest pending non-cancelled deadline is {:?}", c.text, c.t_before, t_after, best)));
        }
    }
    // (6) at quiescent points all pending deadlines are in the future.
    for c in &h.cmds {
        if let (Some(nd), Some(t)) = (c.next_deadline, c.t_after) {
            if nd <= t {
                v.push(Violation::keyed("c01_pending_not_in_future", "quiescent", format!("after `{}` the time is {:?} but an action is pending with deadline {:?}", c.text, t, nd)));
            }
        }
    }
    v
}

pub fn step_until_target(case: &Case, c: &CmdRec) -> Option<T> {
    // "StepUntil { when: Rel(123) }" | "... Abs(123) }" | "... Past(5) }"
    let inner = c.text.split("when: ").nth(1)?;
    let (kind, rest) = inner.split_once('(')?;
    let num: u64 = rest.split(')').next()?.parse().ok()?;
    match kind {
        "Rel" => Some(add_ns(c.t_before, num)),
        "Abs" => Some(crate::node::tt_ns(case.cfg.t0 + num)),
        "Past" => {
            let total = c.t_before.0 as i128 * 1_000_000_000 + c.t_before.1 as i128 - num as i128;
            Some((total.div_euclid(1_000_000_000) as i64, total.rem_euclid(1_000_000_000) as u32))
        }
        _ => None,
    }
}

/// C07: same-time events of one origin to one target are processed in
/// scheduling order.
pub fn same_time_order(_case: &Case, h: &Hist, ag: &Agenda) -> Vec<Violation> {
    let mut v = Vec::new();
    // Scheduling window of every occurrence: (origin, target node, time) -> [(win_lo, win_hi, handler begin, sid)]
    let mut groups: BTreeMap<(Actor, u16, T), Vec<(u64, u64, u64, u32)>> = BTreeMap::new();
    for a in &ag.actions {
        if !a.accepted {
            continue;
        }
        let r = &h.scheds[a.req];
        let mut prev_time: Option<T> = None;
        let mut k = 0u64;
        for hx in &a.firings {
            let x = &h.handlers[*hx];
            if Some(x.time) != prev_time {
                if prev_time.is_some() {
                    k += 1;
                }
            }
            // Occurrence 0 counts as scheduled by the request; occurrence k+1 when occurrence k
            // fires, i.e. when the simulation time is moved to the time of occurrence k.
            let (lo, hi) = if k == 0 {
                (r.call, r.ret.unwrap_or(u64::MAX))
            } else {
                let pt = prev_time_of(a, h, k);
                let w = pt.and_then(|pt| ag.time_writes.iter().find(|(_, t)| *t == pt).map(|(s, _)| *s)).unwrap_or(r.call);
                (w, w)
            };
            groups.entry((a.origin(), x.node, x.time)).or_default().push((lo, hi, x.begin, a.sid));
            prev_time = Some(x.time);
        }
    }
    for ((origin, node, time), list) in groups {
        for i in 0..list.len() {
            for j in 0..list.len() {
                let (_, hi_i, b_i, sid_i) = list[i];
                let (lo_j, _, b_j, sid_j) = list[j];
                if sid_i != sid_j && hi_i < lo_j && b_i > b_j {
                    v.push(Violation::new(
                        "c07_same_time_order",
                        format!("origin {:?}, target node {}, time {:?}: action sid={} was scheduled (seq ..{}) before sid={} (seq {}..) but processed after it (handler seq {} > {})", origin, node, time, sid_i, hi_i, sid_j, lo_j, b_i, b_j),
                    ));
                }
            }
        }
    }
    v
}

fn prev_time_of(a: &Action, h: &Hist, k: u64) -> Option<T> {
    // time of occurrence k-1 as observed
    let mut times: Vec<T> = Vec::new();
    for hx in &a.firings {
        let t = h.handlers[*hx].time;
        if times.last() != Some(&t) {
            times.push(t);
        }
    }
    times.get((k - 1) as usize).copied()
}

/// C08: request validation.
pub fn validation(case: &Case, h: &Hist, ag: &Agenda) -> Vec<Violation> {
    let mut v = Vec::new();
    for a in &ag.actions {
        let r = &h.scheds[a.req];
        let Some(res) = r.res.as_ref() else { continue };
        let what = format!("request sid={} by {:?} ({:?}, rel={:?}, abs={:?}, via_action={})", a.sid, r.actor, r.mode, r.rel, r.abs, r.via_action);
        if let Res::ApiPanic(_) = res {
            continue; // reported by the common rules
        }
        let zero_period = a.period == Some(0);
        if zero_period {
            // The statement requires rejection; which of the two errors is returned when
            // the deadline is invalid as well is not specified.
            if matches!(res, Res::Ok) {
                v.push(Violation::keyed("c08_zero_period_accepted", if r.via_action { "action" } else { "direct" }, format!("{} has a zero period but returned {:?}", what, res)));
            }
            continue;
        }
        let window = ag.times_in(r.call, r.ret.unwrap_or(u64::MAX));
        let window: Vec<T> = match r.in_handler {
            Some(hx) => vec![h.handlers[hx].time],
            None => window,
        };
        if window.is_empty() {
            continue;
        }
        let (must_reject, must_accept) = match (r.abs, r.rel) {
            (Some(d), _) => (window.iter().all(|t| d <= *t), window.iter().all(|t| d > *t)),
            (None, Some(rel)) => (rel == 0, rel > 0),
            _ => (false, false),
        };
        match res {
            Res::Ok => {
                if must_reject {
                    v.push(Violation::new("c08_past_deadline_accepted", format!("{} was accepted although its deadline is not after the simulation time {:?}", what, window)));
                }
            }
            Res::InvalidTime => {
                if must_accept {
                    v.push(Violation::new("c08_future_deadline_rejected", format!("{} was rejected although its deadline lies after the simulation time {:?}", what, window)));
                }
            }
            Res::NullPeriod => {
                v.push(Violation::new("c08_spurious_null_period", format!("{} returned NullRepetitionPeriod with a non-zero period", what)));
            }
            _ => {}
        }
    }
    let f = firing_rules(case, h, ag);
    v.extend(f.rejected_fired);
    v.extend(f.wrong_time);
    v.extend(f.missing);
    v.extend(f.duplicate);
    for c in &h.cmds {
        if let (Some(nd), Some(t)) = (c.next_deadline, c.t_after) {
            if nd <= t {
                v.push(Violation::keyed("c01_pending_not_in_future", "quiescent", format!("after `{}` the time is {:?} but an action is pending with deadline {:?}", c.text, t, nd)));
            }
        }
    }
    for w in ag.time_writes.windows(2) {
        if w[1].1 < w[0].1 {
            v.push(Violation::keyed("c01_time_decreased", "trace", format!("simulation time written as {:?} (seq {}) after {:?} (seq {})", w[1].1, w[1].0, w[0].1, w[0].0)));
        }
    }
    v
}

/// C09.
pub fn cancellation(case: &Case, h: &Hist, ag: &Agenda) -> Vec<Violation> {
    let f = firing_rules(case, h, ag);
    let mut v = f.after_cancel;
    v.extend(f.missing);
    v.extend(f.duplicate);
    v.extend(f.wrong_time);
    v
}

/// C10.
pub fn periodic(case: &Case, h: &Hist, ag: &Agenda) -> Vec<Violation> {
    let f = firing_rules(case, h, ag);
    let mut v = f.wrong_time;
    v.extend(f.missing);
    v.extend(f.duplicate);
    v.extend(f.after_cancel);
    v
}

/// Per-series delivery log used by the partition-metamorphic part of C10:
/// (action ordinal in request order) -> firing times.
pub fn series_log(h: &Hist, ag: &Agenda) -> Vec<Vec<T>> {
    ag.actions
        .iter()
        .map(|a| {
            let mut ts: Vec<T> = Vec::new();
            for hx in &a.firings {
                ts.push(h.handlers[*hx].time);
            }
            ts
        })
        .collect()
}

/// C18.
pub fn clock_protocol(case: &Case, h: &Hist, ag: &Agenda) -> Vec<Violation> {
    let mut v = Vec::new();
    let t0 = crate::node::tt_ns(case.cfg.t0);
    // (1) initialisation synchronises once on the start time before any init code.
    let first_init = h.inits.iter().map(|r| r.begin).min().unwrap_or(u64::MAX);
    let init_end = h.cmd(0).and_then(|c| c.end).unwrap_or(u64::MAX);
    let init_syncs: Vec<_> = h.syncs.iter().filter(|(s, _, _)| *s < init_end).collect();
    if init_syncs.len() != 1 || init_syncs[0].1 != t0 || init_syncs[0].0 > first_init {
        v.push(Violation::new("c18_init_sync", format!("initialisation must synchronise exactly once on {:?} before any init code; saw {:?} (first init at seq {})", t0, init_syncs, first_init)));
    }
    // (3) arguments never decrease.
    for w in h.syncs.windows(2) {
        if w[1].1 < w[0].1 {
            v.push(Violation::new("c18_sync_decreased", format!("synchronize({:?}) after synchronize({:?})", w[1].1, w[0].1)));
        }
    }
    // (2') within one command no time is synchronized twice (a second call would come after the
    // model code of that time has run).
    for c in &h.cmds {
        let hi = c.end.unwrap_or(u64::MAX);
        let mut seen: Vec<T> = Vec::new();
        for (seq, t, _) in &h.syncs {
            if *seq > c.begin && *seq < hi {
                if seen.contains(t) {
                    v.push(Violation::new("c18_sync_repeated", format!("`{}` called synchronize({:?}) more than once (second call at seq {})", c.text, t, seq)));
                    break;
                }
                seen.push(*t);
            }
        }
    }
    // (2) each move to a new time is gated by exactly one synchronize.
    let mut prev_time = t0;
    let writes: Vec<(u64, T)> = ag.time_writes.iter().filter(|(s, _)| *s > init_end).cloned().collect();
    for (i, (ws, t)) in writes.iter().enumerate() {
        let next_ws = writes.get(i + 1).map(|x| x.0).unwrap_or(u64::MAX);
        let syncs_here: Vec<_> = h.syncs.iter().filter(|(s, _, _)| *s > *ws && *s < next_ws).collect();
        let moved = *t != prev_time;
        if moved {
            if syncs_here.len() != 1 || syncs_here[0].1 != *t {
                v.push(Violation::new("c18_sync_count", format!("the simulation moved to {:?} (seq {}) but synchronize was called {:?} before the next move", t, ws, syncs_here.iter().map(|s| s.1).collect::<Vec<_>>())));
            }
        } else if syncs_here.iter().any(|s| s.1 != *t) {
            v.push(Violation::new("c18_sync_wrong_time", format!("time stays {:?} but synchronize was called with {:?}", t, syncs_here)));
        }
        if let Some(sy) = syncs_here.first() {
            // before any computation for t, after all computations of earlier times
            for x in &h.handlers {
                if x.time == *t && x.begin > *ws && x.begin < sy.0 {
                    v.push(Violation::new("c18_handler_before_sync", format!("a handler for time {:?} began at seq {} before synchronize at seq {}", t, x.begin, sy.0)));
                }
                if x.time < *t && x.end.map(|e| e > sy.0).unwrap_or(true) && x.begin < sy.0 {
                    v.push(Violation::new("c18_sync_before_earlier_done", format!("synchronize({:?}) at seq {} while a handler of earlier time {:?} (seq {}) had not finished", t, sy.0, x.time, x.begin)));
                }
            }
            // (4) lag above the tolerance fails the step before model code runs.
            if let Some(lag) = sy.2 {
                let cmd = h.cmds.iter().rev().find(|c| c.begin < sy.0);
                let over = case.cfg.tolerance.map(|tol| lag > tol).unwrap_or(false);
                if let Some(c) = cmd {
                    if over {
                        let final_jump = !h.handlers.iter().any(|x| x.time == *t) && c.text.starts_with("StepUntil");
                        if c.res != Some(Res::OutOfSync(lag)) {
                            v.push(Violation::keyed(
                                "c18_lag_not_reported",
                                if final_jump { "step_until_final_jump" } else { "deadline" },
                                format!("synchronize({:?}) reported a lag of {} ns above the tolerance {:?} but `{}` returned {:?}", t, lag, case.cfg.tolerance, c.text, c.res),
                            ));
                        }
                        for x in &h.handlers {
                            if x.time == *t && x.begin > sy.0 {
                                v.push(Violation::new("c18_handler_after_lag", format!("model code for {:?} ran (seq {}) although synchronize reported an excessive lag", t, x.begin)));
                                break;
                            }
                        }
                    }
                }
            }
        }
        prev_time = *t;
    }
    // A command that returns OutOfSync(lag) must have received exactly that lag, above the
    // tolerance, from its last synchronize call.
    for c in &h.cmds {
        if let Some(Res::OutOfSync(l)) = &c.res {
            let last = h.syncs.iter().filter(|(s, _, _)| *s > c.begin && c.end.map(|e| *s < e).unwrap_or(true)).last();
            let ok = match last {
                Some((_, _, Some(lag))) => lag == l && case.cfg.tolerance.map(|tol| *lag > tol).unwrap_or(false),
                _ => false,
            };
            if !ok {
                v.push(Violation::new("c18_spurious_out_of_sync", format!("`{}` returned OutOfSync({}) but its last synchronize call answered {:?} (tolerance {:?})", c.text, l, last, case.cfg.tolerance)));
            }
        }
    }
    v
}
