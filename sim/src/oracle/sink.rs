//! Event sink oracle (C17): a reference bounded FIFO (drop-oldest) / last-value
//! slot with an open flag, fed with the logged writes.
//!
//! On the single-threaded executor the log order of the writes is the write
//! order, so reads must equal the reference exactly. On the multi-threaded
//! executor several models may write concurrently: the order between different
//! connections is then unknown, but the number of retained events, the order
//! and "suffix" property per connection, and exactly-once yielding are not.

use std::collections::{BTreeMap, VecDeque};

use super::*;

#[derive(Clone, Debug)]
enum SinkEv {
    Write { msg: u64, cid: u32 },
    Ctl(bool),
    Read { asked: u8, items: Vec<(u64, u32)> },
}

pub fn sink_rules(case: &Case, h: &Hist) -> Vec<Violation> {
    let mut v = Vec::new();
    // An output shared by several models through clones is one connection with several writers:
    // order is only defined per (connection, sending model). Streams are therefore identified by
    // the connection id plus a code of the sender of the message.
    let mut sender: BTreeMap<u64, u32> = BTreeMap::new();
    for s in &h.sends {
        let code = match s.actor {
            Actor::Node(n) => 1 + n as u32,
            Actor::Driver => 0,
            Actor::Aux(a) => 2_000 + a as u32,
        };
        sender.insert(s.msg, code);
    }
    let stream = |msg: u64, via: u32| -> u32 { via.wrapping_add(sender.get(&msg).copied().unwrap_or(0).wrapping_mul(1_000_000)) };
    for (si, spec) in case.sinks.iter().enumerate() {
        let si = si as u16;
        let mut evs: Vec<(u64, SinkEv)> = Vec::new();
        for (seq, s, msg, via, _salt) in &h.sink_writes {
            if *s == si {
                evs.push((*seq, SinkEv::Write { msg: *msg, cid: stream(*msg, *via) }));
            }
        }
        for (seq, s, open) in &h.sink_ctl {
            if *s == si {
                evs.push((*seq, SinkEv::Ctl(*open)));
            }
        }
        for (seq, s, asked, items) in &h.sink_reads {
            if *s == si {
                evs.push((*seq, SinkEv::Read { asked: *asked, items: items.iter().map(|(m, via)| (*m, stream(*m, *via))).collect() }));
            }
        }
        evs.sort_by_key(|e| e.0);
        let exact = case.cfg.threads <= 1;
        match spec.buffer {
            Some(cap) => v.extend(buffer_rules(si, cap.max(1) as usize, spec.open, &evs, exact)),
            None => v.extend(slot_rules(si, spec.open, &evs, exact)),
        }
    }
    v
}

fn buffer_rules(si: u16, cap: usize, open0: bool, evs: &[(u64, SinkEv)], exact: bool) -> Vec<Violation> {
    let mut v = Vec::new();
    let mut open = open0;
    // Exact reference (meaningful when `exact`).
    let mut fifo: VecDeque<(u64, u32)> = VecDeque::new();
    // Order-insensitive reference: number of retained events and, per connection, the accepted
    // events not yet yielded and not yet known to have been pushed out.
    let mut len: usize = 0;
    let mut per_cid: BTreeMap<u32, VecDeque<u64>> = BTreeMap::new();
    let mut yielded: BTreeMap<(u64, u32), u64> = BTreeMap::new();
    for (seq, e) in evs {
        match e {
            SinkEv::Ctl(o) => open = *o,
            SinkEv::Write { msg, cid } => {
                if !open {
                    continue;
                }
                if fifo.len() == cap {
                    fifo.pop_front();
                }
                fifo.push_back((*msg, *cid));
                len = (len + 1).min(cap);
                per_cid.entry(*cid).or_default().push_back(*msg);
            }
            SinkEv::Read { asked, items } => {
                let expect_n = (*asked as usize).min(len);
                if items.len() != expect_n {
                    v.push(Violation::keyed(
                        "c17_buffer_count",
                        if items.len() < expect_n { "too_few" } else { "too_many" },
                        format!("sink {} (EventBuffer, capacity {}): {} events were asked for at seq {} with {} events retained, {} were yielded: {:?}", si, cap, asked, seq, len, items.len(), items),
                    ));
                }
                len = len.saturating_sub(items.len());
                for (msg, via) in items {
                    if let Some(prev) = yielded.insert((*msg, *via), *seq) {
                        v.push(Violation::new("c17_yielded_twice", format!("sink {}: event {} yielded at seq {} and again at seq {}", si, msg, prev, seq)));
                    }
                    match per_cid.get_mut(via) {
                        Some(q) => match q.iter().position(|m| m == msg) {
                            Some(pos) => {
                                // Everything this connection wrote before `msg` was pushed out (or yielded).
                                for _ in 0..=pos {
                                    q.pop_front();
                                }
                            }
                            None => v.push(Violation::new(
                                "c17_buffer_order",
                                format!("sink {}: event {} of connection {} was yielded at seq {} although it was never written while the sink was open, was yielded before, or a later event of the same connection had already been yielded (FIFO order per output broken)", si, msg, via, seq),
                            )),
                        },
                        None => v.push(Violation::new("c17_invented", format!("sink {}: event {} (connection {}) was yielded but never written", si, msg, via))),
                    }
                }
                // A drained buffer holds nothing: whatever was not yielded has been pushed out.
                if items.len() < *asked as usize {
                    for q in per_cid.values_mut() {
                        q.clear();
                    }
                }
                if exact {
                    let mut exp = Vec::new();
                    for _ in 0..*asked {
                        match fifo.pop_front() {
                            Some(x) => exp.push(x),
                            None => break,
                        }
                    }
                    if exp != *items {
                        v.push(Violation::new(
                            "c17_buffer_content",
                            format!("sink {} (EventBuffer, capacity {}): read of {} events at seq {} yielded {:?}, the reference FIFO (drop-oldest) yields {:?}", si, cap, asked, seq, items, exp),
                        ));
                    }
                } else {
                    for _ in 0..items.len() {
                        fifo.pop_front();
                    }
                }
            }
        }
    }
    v
}

fn slot_rules(si: u16, open0: bool, evs: &[(u64, SinkEv)], exact: bool) -> Vec<Violation> {
    let mut v = Vec::new();
    let mut open = open0;
    let mut last: Option<(u64, u32)> = None;
    // Per connection: last accepted write since the slot was last emptied.
    let mut last_per_cid: BTreeMap<u32, u64> = BTreeMap::new();
    for (seq, e) in evs {
        match e {
            SinkEv::Ctl(o) => open = *o,
            SinkEv::Write { msg, cid } => {
                if open {
                    last = Some((*msg, *cid));
                    last_per_cid.insert(*cid, *msg);
                }
            }
            SinkEv::Read { asked, items } => {
                if *asked == 0 {
                    if !items.is_empty() {
                        v.push(Violation::new("c17_slot_content", format!("sink {} (EventSlot): nothing was asked for but {:?} was yielded", si, items)));
                    }
                    continue;
                }
                let full = last.is_some();
                if full && items.len() != 1 || !full && !items.is_empty() {
                    v.push(Violation::keyed(
                        "c17_slot_count",
                        if full { "lost" } else { "stale" },
                        format!("sink {} (EventSlot): read at seq {} yielded {:?}; the slot {} (last accepted write {:?})", si, seq, items, if full { "holds an event that must be yielded exactly once" } else { "is empty" }, last),
                    ));
                } else if let Some((msg, via)) = items.first() {
                    let ok = if exact { Some((*msg, *via)) == last } else { last_per_cid.get(via) == Some(msg) };
                    if !ok {
                        v.push(Violation::new(
                            "c17_slot_content",
                            format!("sink {} (EventSlot): read at seq {} yielded event {} of connection {}, expected the most recent write {:?} (latest write per connection: {:?})", si, seq, msg, via, last, last_per_cid),
                        ));
                    }
                }
                last = None;
                last_per_cid.clear();
            }
        }
    }
    v
}
