//! Failure classification and the `Terminated` contract (C11).
//!
//! For every run command the causes of failure that *actually occurred* in its
//! window are read from the history (injected panic, send to a dropped
//! mailbox, injected time-out, clock lag above the tolerance, stall). The
//! reported error must be the one the causes call for, with the right
//! attribution; a fatal error must be followed by `Terminated` only.

use super::agenda::Agenda;
use super::*;
use crate::ctx::T;
use crate::hist::CmdRec;

/// Is this a `step_until` command whose target lies before the current time?
fn targets_past(case: &Case, c: &CmdRec) -> bool {
    c.text.starts_with("StepUntil") && super::time::step_until_target(case, c).map(|t| t < c.t_before).unwrap_or(false)
}

fn is_run(text: &str) -> bool {
    flow::is_run_cmd(text)
}

/// Text form (as produced by `driver::payload_text`) of the payload that node
/// `node` throws.
fn expected_payload(case: &Case, node: u16, logged: &str) -> String {
    match case.nodes[node as usize].panic_at.map(|p| p.1) {
        Some(0) => format!("str:{}", logged),
        Some(1) => format!("string:{}", logged),
        _ => format!("u32:{}", 0xC0FFEE_u32 + node as u32),
    }
}

/// A mailbox that is alive but not part of the simulation (never added, or the child of a model
/// that was never built): sends to it block for ever once it is full, so actions chained behind
/// such a send may never run.
fn orphans_exist(case: &Case) -> bool {
    (0..case.nodes.len()).any(|i| !case.in_sim(i) && !case.nodes[i].dead)
}

/// Source index named by the scheduling command of request `req`.
fn action_source(h: &Hist, req: &crate::hist::SchedReq) -> Option<usize> {
    let cmd = h.cmd(req.cmd)?;
    cmd.text.split("Action(").nth(1)?.split(')').next()?.parse::<usize>().ok()
}

/// Does this (accepted) scheduler action broadcast to a dropped mailbox?
fn action_hits_dead(case: &Case, h: &Hist, a: &agenda::Action) -> bool {
    if !a.via_action {
        return false; // direct events ignore send errors by design
    }
    let r = &h.scheds[a.req];
    let Some(src) = action_source(h, r) else { return false };
    let Some(spec) = case.sources.get(src) else { return false };
    spec.edges.iter().any(|e| matches!(e.target, Target::Node(t) if case.nodes[t as usize].dead) && e.accepts(r.salt))
}

#[derive(Debug)]
struct Causes {
    panics: Vec<(String, String)>,
    /// Senders that certainly attempted a send to a dropped mailbox.
    dead_senders: Vec<Option<String>>,
    /// A scheduler action with a dropped recipient may have fired.
    dead_action_possible: bool,
    dead_action_certain: bool,
    timeout: bool,
    lag: Option<u64>,
    /// Nodes whose task died during the call (they panicked, or their send to a dropped mailbox
    /// failed): their mailbox and reply channels are closed as a consequence.
    victims: Vec<u16>,
}

/// On the multi-threaded executor: was the reported `NoRecipient { model }` raised by a model that
/// was talking to a model whose task had just died (known race F9: the secondary `SendError`
/// is registered before the primary failure)?
fn is_secondary(case: &Case, h: &Hist, c: &CmdRec, k: &Causes, res: &Res, ag: &Agenda) -> bool {
    let Res::NoRecipient(m) = res else { return false };
    if case.cfg.threads <= 1 {
        return false;
    }
    let lo = c.begin;
    let hi = c.end.unwrap_or(u64::MAX);
    let extra = flow::dynamic_connections(h);
    // `None`: a task of the scheduler / driver (an event or query source) was talking to the victim.
    if m.is_none() {
        let by_action = ag.actions.iter().any(|a| {
            a.accepted && a.via_action && {
                let r = &h.scheds[a.req];
                action_source(h, r).and_then(|src| case.sources.get(src)).map(|spec| spec.edges.iter().any(|e| matches!(e.target, Target::Node(t) if k.victims.contains(&t)) && e.accepts(r.salt))).unwrap_or(false)
            }
        });
        let by_send = h.sends.iter().any(|s| {
            s.port >= 3000 && s.begin >= lo && s.begin <= hi && expected_deliveries(case, s.actor, s.port, s.salt, &[]).iter().any(|d| matches!(d.target, Target::Node(t) if k.victims.contains(&t)))
        });
        return by_action || by_send;
    }
    let m = m.as_ref().unwrap();
    h.sends.iter().any(|s| {
        let Actor::Node(x) = s.actor else { return false };
        if case.fq_name(x as usize) != *m || s.begin < lo || s.begin > hi || s.port >= 2000 {
            return false;
        }
        let extra_now: Vec<(u16, u8, Edge)> = extra.iter().filter(|(seq, ..)| *seq < s.begin).map(|(_, n, p, e)| (*n, *p, e.clone())).collect();
        expected_deliveries(case, s.actor, s.port, s.salt, &extra_now).iter().any(|d| matches!(d.target, Target::Node(t) if k.victims.contains(&t)))
    })
}

fn causes(case: &Case, h: &Hist, ag: &Agenda, c: &CmdRec) -> Causes {
    let lo = c.begin;
    let hi = c.end.unwrap_or(u64::MAX);
    let inside = |s: u64| s > lo && s < hi;
    let mut k = Causes { panics: vec![], dead_senders: vec![], dead_action_possible: false, dead_action_certain: false, timeout: false, lag: None, victims: vec![] };
    for (seq, node, payload) in &h.panics {
        if inside(*seq) {
            k.panics.push((case.fq_name(*node as usize), expected_payload(case, *node, payload)));
            k.victims.push(*node);
        }
    }
    let extra = flow::dynamic_connections(h);
    for s in &h.sends {
        if !inside(s.begin) || (2000..3000).contains(&s.port) {
            continue;
        }
        let extra_now: Vec<(u16, u8, Edge)> = extra.iter().filter(|(seq, ..)| *seq < s.begin).map(|(_, n, p, e)| (*n, *p, e.clone())).collect();
        let exp = expected_deliveries(case, s.actor, s.port, s.salt, &extra_now);
        if exp.iter().any(|d| matches!(d.target, Target::Node(t) if case.nodes[t as usize].dead)) {
            k.dead_senders.push(match s.actor {
                Actor::Node(n) => {
                    k.victims.push(n);
                    Some(case.fq_name(n as usize))
                }
                _ => None,
            });
        }
    }
    // Scheduler actions built from an event source with a dropped recipient.
    if c.text.starts_with("Step") {
        if let Some(t_after) = c.t_after {
            for a in &ag.actions {
                if !a.accepted || !action_hits_dead(case, h, a) {
                    continue;
                }
                let r = &h.scheds[a.req];
                if r.ret.map(|x| x > lo).unwrap_or(true) {
                    continue;
                }
                let cancelled_maybe = !a.cancels.is_empty();
                for cand in 0..a.d0.len() {
                    let max_k = if a.period.is_some() { 4096 } else { 1 };
                    for kk in 0..max_k {
                        let d: T = a.occ(cand, kk);
                        if d > t_after {
                            break;
                        }
                        if d > c.t_before {
                            k.dead_action_possible = true;
                            if a.d0.len() == 1 && !cancelled_maybe {
                                k.dead_action_certain = true;
                            }
                        }
                    }
                }
            }
        }
    }
    for (seq, t) in &h.trace {
        if inside(*seq) && matches!(t, TraceEv::TimeoutFired) {
            k.timeout = true;
        }
    }
    // The failure propagates: a model whose send fails because its peer's task died dies itself
    // (SendError), which closes its own mailbox, and so on.
    if !k.victims.is_empty() {
        loop {
            let mut grew = false;
            for s in &h.sends {
                let Actor::Node(x) = s.actor else { continue };
                if s.begin < lo || s.begin > hi || s.port >= 2000 || k.victims.contains(&x) {
                    continue;
                }
                let extra_now: Vec<(u16, u8, Edge)> = extra.iter().filter(|(seq, ..)| *seq < s.begin).map(|(_, n, p, e)| (*n, *p, e.clone())).collect();
                if expected_deliveries(case, s.actor, s.port, s.salt, &extra_now).iter().any(|d| matches!(d.target, Target::Node(t) if k.victims.contains(&t))) {
                    k.victims.push(x);
                    grew = true;
                }
            }
            if !grew {
                break;
            }
        }
    }
    if let Some(tol) = case.cfg.tolerance {
        // The init-time synchronisation is not gated by the tolerance.
        if c.idx != 0 {
            for (seq, _, lag) in &h.syncs {
                if inside(*seq) {
                    if let Some(l) = lag {
                        if *l > tol && k.lag.is_none() {
                            k.lag = Some(*l);
                        }
                    }
                }
            }
        }
    }
    k
}

/// Rule 1 (kind and attribution) for every run command up to and including
/// the first fatal one, and rule 3 (non-fatal errors leave the simulation
/// usable: the following commands are judged like any other).
pub fn classification(case: &Case, h: &Hist, ag: &Agenda) -> Vec<Violation> {
    let mut v = Vec::new();
    for c in &h.cmds {
        let (Some(_), Some(res)) = (c.end, c.res.as_ref()) else { continue };
        if !is_run(&c.text) {
            continue;
        }
        if matches!(res, Res::ApiPanic(_)) {
            break; // common rule `api_panicked`
        }
        let k = causes(case, h, ag, c);
        let what = format!("`{}` returned {:?}", c.text, res);
        if let Some((model, payload)) = k.panics.first() {
            let ok = match res {
                Res::Panic { model: m, payload: p } => k.panics.iter().any(|(em, ep)| em == m && ep == p),
                _ => false,
            };
            if !ok {
                // Distinguishing key: on the multi-threaded executor, a `NoRecipient` naming a
                // model that was talking to the panicking model (its mailbox / reply channel is
                // closed by the panic) is the known race F9; anything else is keyed by class.
                let key = if is_secondary(case, h, c, &k, res, ag) { "secondary_send_error_wins_race_mt".to_string() } else { res.class().to_string() };
                v.push(Violation::keyed("c11_panic_misreported", key, format!("{} although model `{}` panicked with payload `{}` during the call (panics: {:?})", what, model, payload, k.panics)));
            }
        } else if !k.dead_senders.is_empty() {
            let ok = match res {
                Res::NoRecipient(m) => k.dead_senders.contains(m) || (m.is_none() && k.dead_action_possible),
                _ => false,
            };
            if !ok {
                let key = if is_secondary(case, h, c, &k, res, ag) { "secondary_send_error_wins_race_mt".to_string() } else { res.class().to_string() };
                v.push(Violation::keyed("c11_no_recipient_misreported", key, format!("{} although a message was sent to a dropped mailbox by {:?} during the call", what, k.dead_senders)));
            }
        } else if k.timeout {
            if *res != Res::Timeout {
                v.push(Violation::keyed("c11_timeout_misreported", res.class(), format!("{} although the step time-out elapsed during the call", what)));
            }
        } else if let Some(lag) = k.lag {
            if *res != Res::OutOfSync(lag) {
                v.push(Violation::keyed("c11_out_of_sync_misreported", res.class(), format!("{} although the clock reported a lag of {} ns above the tolerance {:?}", what, lag, case.cfg.tolerance)));
            }
        } else if k.dead_action_certain && !orphans_exist(case) {
            if *res != Res::NoRecipient(None) {
                v.push(Violation::keyed("c11_no_recipient_misreported", res.class(), format!("{} although a scheduled event-source action with a dropped recipient was due during the call (expected NoRecipient {{ model: None }})", what)));
            }
        } else {
            // No injected cause: Ok, a stall report, or the non-fatal error the command calls for.
            match res {
                Res::Ok | Res::Deadlock(_) | Res::MessageLoss(_) => v.extend(flow::stall_check_cmd(case, h, c)),
                Res::NoRecipient(None) if k.dead_action_possible => {}
                Res::BadQuery => {
                    let dead_target = c.text.starts_with("ProcessQuery") && h.sends.iter().any(|s| s.begin > c.begin && s.begin < c.end.unwrap_or(u64::MAX) && (2000..3000).contains(&s.port) && case.nodes[(s.port - 2000) as usize].dead);
                    if !dead_target {
                        v.push(Violation::new("c11_spurious_error", format!("{} but the queried mailbox is alive", what)));
                    }
                }
                Res::InvalidDeadline => {
                    if !targets_past(case, c) {
                        v.push(Violation::new("c11_spurious_error", format!("{} but the deadline is not in the past", what)));
                    }
                }
                Res::Terminated => {
                    v.push(Violation::new("c11_spurious_terminated", format!("{} although no fatal error was reported before", what)));
                }
                other => {
                    v.push(Violation::keyed("c11_spurious_error", other.class(), format!("{} but nothing in the history of the call explains this error", what)));
                }
            }
            // Converse of the non-fatal rules.
            if matches!(res, Res::Ok) {
                if targets_past(case, c) {
                    v.push(Violation::new("c11_invalid_deadline_accepted", format!("{} for a deadline in the past", what)));
                }
                if c.text.starts_with("ProcessQuery") && h.sends.iter().any(|s| s.begin > c.begin && s.begin < c.end.unwrap_or(u64::MAX) && (2000..3000).contains(&s.port) && case.nodes[(s.port - 2000) as usize].dead) {
                    v.push(Violation::new("c11_bad_query_unreported", format!("{} for a query to a dropped mailbox", what)));
                }
            }
        }
        if res.is_fatal() {
            break;
        }
    }
    v
}

/// Rule 2: after the first fatal error every further run attempt returns
/// `Terminated`, without running model code and without touching the time.
pub fn terminated_contract(case: &Case, h: &Hist, ag: &Agenda) -> Vec<Violation> {
    let mut v = Vec::new();
    let Some((fidx, fres)) = h.first_fatal() else { return v };
    let fres = fres.clone();
    let Some(fcmd) = h.cmd(fidx) else { return v };
    let Some(fend) = fcmd.end else { return v };
    let kind = fres.class();
    for c in h.cmds.iter().filter(|c| c.begin > fend) {
        let (Some(end), Some(res)) = (c.end, c.res.as_ref()) else { continue };
        if is_run(&c.text) {
            let what = c.text.split(|ch: char| !ch.is_alphanumeric()).next().unwrap_or("").to_string();
            let past = targets_past(case, c);
            let ok = matches!(res, Res::Terminated) || (past && matches!(res, Res::InvalidDeadline));
            if !ok && !matches!(res, Res::ApiPanic(_)) {
                v.push(Violation::keyed(
                    "c11_not_terminated",
                    format!("{} after {} -> {}", what, kind, res.class()),
                    format!("`{}` returned {:?} although the simulation had failed before with {:?} (command {})", c.text, res, fres, fidx),
                ));
            }
        }
        if let Some(t) = c.t_after {
            if t != c.t_before && !matches!(res, Res::ApiPanic(_)) {
                v.push(Violation::keyed(
                    "c11_time_changed_after_termination",
                    format!("{} after {}", c.text.split(|ch: char| !ch.is_alphanumeric()).next().unwrap_or(""), kind),
                    format!("`{}` changed the simulation time from {:?} to {:?} although the simulation had failed before with {:?}", c.text, c.t_before, t, fres),
                ));
            }
        }
        for (s, t) in &ag.time_writes {
            if *s > c.begin && *s < end {
                v.push(Violation::keyed(
                    "c11_time_changed_after_termination",
                    format!("{} after {}", c.text.split(|ch: char| !ch.is_alphanumeric()).next().unwrap_or(""), kind),
                    format!("`{}` wrote the simulation time ({:?}) although the simulation had failed before with {:?}", c.text, t, fres),
                ));
                break;
            }
        }
    }
    // Model code after the failure. Worker threads of the multi-threaded
    // executor (and the helper thread of a timed-out single-threaded step) may
    // legitimately still be finishing a poll after Panic / NoRecipient /
    // Timeout, so the rule is only exact for the other combinations.
    let stragglers_possible = matches!(fres, Res::Timeout) || (case.cfg.threads > 1 && matches!(fres, Res::Panic { .. } | Res::NoRecipient(_)));
    if !stragglers_possible {
        let drop_at = h.drop_begin.unwrap_or(u64::MAX);
        for x in &h.handlers {
            if x.begin > fend && x.begin < drop_at {
                v.push(Violation::keyed(
                    "c11_model_code_after_termination",
                    kind,
                    format!("a handler of node {} began at seq {} after the simulation had failed with {:?} (command {} ended at seq {})", x.node, x.begin, fres, fidx, fend),
                ));
                break;
            }
        }
    }
    v
}
