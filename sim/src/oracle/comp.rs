//! Oracles of the component harnesses: linearizability of the mailbox queue
//! against a sequential bounded FIFO (C12), the asynchronous channel contract
//! (C12), the task lifecycle (C13) and the time cell (C15).

use std::collections::{BTreeMap, HashSet, VecDeque};

use super::Violation;
use crate::case::*;
use crate::ctx::{CompEv, Ev, QRes};

fn comp_events(log: &[Ev]) -> Vec<(u64, &CompEv)> {
    log.iter().enumerate().filter_map(|(i, e)| if let Ev::Comp(c) = e { Some((i as u64, c)) } else { None }).collect()
}

// ------------------------------------------------------------------ C12: queue

#[derive(Clone, Debug)]
struct Op {
    op: QOp,
    res: QRes,
    inv: u64,
    ret: u64,
}

#[derive(Clone, Debug, PartialEq, Eq, Hash)]
struct QState {
    q: VecDeque<u64>,
    borrowed: bool,
    closed: bool,
}

/// Sequential specification: does `op` with result `res` apply in `st`?
/// `push_pending`: an accepted push that overlaps this operation has not taken
/// effect yet (the implementation then answers `Empty` rather than `Closed`).
fn apply(st: &QState, cap: usize, op: &Op, push_pending: bool, stale_releases: usize) -> Option<QState> {
    let mut n = st.clone();
    match (op.op, op.res) {
        (QOp::Push(v), QRes::Ok) => {
            if st.closed || st.q.len() + st.borrowed as usize >= cap {
                return None;
            }
            n.q.push_back(v);
        }
        (QOp::Push(_), QRes::Full) => {
            // Outside sequential consistency (engine E2) a push may still see the slot it targets
            // as occupied although the consumer has released it, if that release overlaps the
            // push (no happens-before edge makes it visible): `Full` is then explained by the
            // occupancy without those releases. The asynchronous sender retries after registering
            // for a notification, with fences, so no wake-up is lost on that account.
            if st.closed || st.q.len() + (st.borrowed as usize) + stale_releases < cap {
                return None;
            }
        }
        (QOp::Push(_), QRes::Closed) => {
            if !st.closed {
                return None;
            }
        }
        (QOp::Pop, QRes::Val(v)) => {
            if st.borrowed || st.q.front() != Some(&v) {
                return None;
            }
            n.q.pop_front();
            n.borrowed = true;
        }
        (QOp::Pop, QRes::Empty) => {
            // `Empty` is exact unless an accepted push overlaps the pop: a push that has reserved
            // the head slot but not yet published it hides the messages behind it (and keeps a
            // closed queue from reporting `Closed`). The statement does not forbid this: the
            // receiver is notified when that push completes.
            if (!st.q.is_empty() || st.closed) && !push_pending {
                return None;
            }
        }
        (QOp::Pop, QRes::Closed) => {
            if !st.q.is_empty() || !st.closed {
                return None;
            }
        }
        (QOp::Release, _) => {
            if !st.borrowed {
                return None;
            }
            n.borrowed = false;
        }
        (QOp::Close, _) => n.closed = true,
        _ => return None,
    }
    Some(n)
}

/// Wing & Gong style search for a linearization (histories are short).
fn linearizable(ops: &[Op], cap: usize) -> Option<QState> {
    fn rec(ops: &[Op], done: u64, st: &QState, cap: usize, seen: &mut HashSet<(u64, QState)>) -> Option<QState> {
        if done == (1u64 << ops.len()) - 1 {
            return Some(st.clone());
        }
        if !seen.insert((done, st.clone())) {
            return None;
        }
        // An operation may be linearized next if no other pending operation returned before it was invoked.
        let min_ret = ops.iter().enumerate().filter(|(i, _)| done & (1 << i) == 0).map(|(_, o)| o.ret).min().unwrap();
        for (i, o) in ops.iter().enumerate() {
            if done & (1 << i) != 0 || o.inv > min_ret {
                continue;
            }
            let push_pending = ops.iter().enumerate().any(|(j, p)| j != i && matches!((p.op, p.res), (QOp::Push(_), QRes::Ok)) && p.inv < o.ret && p.ret > o.inv);
            // (engine E2 only) releases overlapping this push
            let stale_releases = if cfg!(feature = "e1") { 0 } else { ops.iter().enumerate().filter(|(j, p)| *j != i && matches!(p.op, QOp::Release) && p.inv < o.ret && p.ret > o.inv).count() };
            if let Some(n) = apply(st, cap, o, push_pending, stale_releases) {
                if let Some(f) = rec(ops, done | (1 << i), &n, cap, seen) {
                    return Some(f);
                }
            }
        }
        None
    }
    let mut seen = HashSet::new();
    rec(ops, 0, &QState { q: VecDeque::new(), borrowed: false, closed: false }, cap, &mut seen)
}

pub fn queue_rules(q: &QueueCase, log: &[Ev]) -> Vec<Violation> {
    let mut v = Vec::new();
    let evs = comp_events(log);
    let cap = q.cap.max(1) as usize;
    let mut open: BTreeMap<u8, (QOp, u64)> = BTreeMap::new();
    let mut ops: Vec<Op> = Vec::new();
    let mut len_final: Option<(usize, bool)> = None;
    let mut drained: Option<Vec<u64>> = None;
    for (seq, e) in &evs {
        match e {
            CompEv::QInvoke { thread, op } => {
                open.insert(*thread, (*op, *seq));
            }
            CompEv::QReturn { thread, op, res } => {
                if let Some((o, inv)) = open.remove(thread) {
                    if o == *op {
                        ops.push(Op { op: *op, res: *res, inv, ret: *seq });
                    }
                }
            }
            CompEv::QLenFinal { len, held } => len_final = Some((*len, *held)),
            CompEv::QDrained { rest } => drained = Some(rest.clone()),
            _ => {}
        }
    }
    if ops.len() > 40 {
        return v;
    }
    if linearizable(&ops, cap).is_none() {
        let text: Vec<String> = ops.iter().map(|o| format!("[{}..{}] {:?} -> {:?}", o.inv, o.ret, o.op, o.res)).collect();
        v.push(Violation::new("c12_not_linearizable", format!("capacity {}: no sequential bounded-FIFO execution explains the history (including the final drain): {}", cap, text.join("; "))));
    }
    // Quiescent length: with no operation in flight, `len()` is the number of messages held,
    // i.e. what the final drain yields plus the borrow outstanding at that moment.
    if let (Some((len, held)), Some(rest)) = (len_final, drained) {
        // (a message that was popped but whose slot is not released yet is being received: it
        // still occupies a slot but is no longer counted)
        if len != rest.len() {
            v.push(Violation::new("c12_len", format!("capacity {}: len() reported {} with no operation in flight; {} messages are queued (final drain: {:?})", cap, len, rest.len(), rest)));
        }
        if rest.len() + held as usize > cap {
            v.push(Violation::new("c12_capacity", format!("capacity {}: {} messages were held at the end ({} queued + {} borrowed)", cap, rest.len() + held as usize, rest.len(), held as usize)));
        }
    }
    v
}

// ------------------------------------------------------------------ C12: channel

pub fn chan_rules(c: &ChanCase, log: &[Ev]) -> Vec<Violation> {
    let mut v = Vec::new();
    let evs = comp_events(log);
    let cap = c.cap.max(1) as i64;
    let mut sent_ok: Vec<(u8, u64, u64, u64)> = Vec::new(); // (producer, value, invoke, return)
    let mut send_inv: BTreeMap<(u8, u64), u64> = BTreeMap::new();
    let mut received: Vec<(u64, u64)> = Vec::new(); // (value, seq)
    let mut close_ret: Option<u64> = None;
    let mut close_inv: Option<u64> = None;
    let mut recv_err: Option<u64> = None;
    let mut len_final = None;
    for (seq, e) in &evs {
        match e {
            CompEv::SendInvoke { p, v: val } => {
                send_inv.insert((*p, *val), *seq);
            }
            CompEv::SendReturn { p, v: val, ok } => {
                let inv = send_inv.get(&(*p, *val)).copied().unwrap_or(0);
                if *ok {
                    sent_ok.push((*p, *val, inv, *seq));
                    if let Some(cr) = close_ret {
                        if inv > cr {
                            v.push(Violation::new("c12_send_after_close", format!("send of {} by producer {} began (seq {}) after the channel had been closed (seq {}) and succeeded", val, p, inv, cr)));
                        }
                    }
                } else if close_inv.is_none() {
                    v.push(Violation::new("c12_spurious_send_error", format!("send of {} by producer {} failed although the channel was never closed", val, p)));
                }
            }
            CompEv::RecvReturn { v: Some(val) } => received.push((*val, *seq)),
            CompEv::RecvReturn { v: None } => {
                recv_err = Some(*seq);
                if close_inv.is_none() {
                    v.push(Violation::new("c12_spurious_recv_error", "recv failed although the channel was never closed".to_string()));
                }
            }
            CompEv::CloseInvoke { .. } => {
                if close_inv.is_none() {
                    close_inv = Some(*seq);
                }
            }
            CompEv::CloseReturn { .. } => {
                if close_ret.is_none() {
                    close_ret = Some(*seq);
                }
            }
            CompEv::ChanLenFinal { len } => len_final = Some(*len),
            _ => {}
        }
    }
    // Exactly once, nothing invented.
    let mut seen = HashSet::new();
    for (val, seq) in &received {
        if !seen.insert(*val) {
            v.push(Violation::new("c12_duplicate", format!("message {} was received twice (second time at seq {})", val, seq)));
        }
        if !c.producers.iter().flatten().any(|x| x == val) {
            v.push(Violation::new("c12_invented", format!("message {} was received but never sent", val)));
        }
    }
    // Per-producer order.
    for (pi, vals) in c.producers.iter().enumerate() {
        let got: Vec<u64> = received.iter().map(|r| r.0).filter(|x| vals.contains(x)).collect();
        let mut it = vals.iter();
        for g in &got {
            if !it.any(|x| x == g) {
                v.push(Violation::new("c12_producer_order", format!("messages of producer {} were received as {:?}, sent as {:?}", pi, got, vals)));
                break;
            }
        }
    }
    // Lossless: every accepted message is received (the receiver reads until the end / the error),
    // unless the receiver was dropped: what the mailbox held then goes with it.
    for (p, val, _, _) in &sent_ok {
        if !seen.contains(val) && !(c.recv_drop && c.close_after.is_some()) {
            v.push(Violation::new("c12_lost", format!("message {} of producer {} was accepted by the channel but never received (receive error at {:?})", val, p, recv_err)));
        }
    }
    // A message is received only after its send began.
    for (val, seq) in &received {
        if let Some(inv) = send_inv.iter().find(|((_, x), _)| x == val).map(|(_, s)| *s) {
            if *seq < inv {
                v.push(Violation::new("c12_invented", format!("message {} was received at seq {} before its send began at seq {}", val, seq, inv)));
            }
        }
    }
    // Capacity: at no point may more than `capacity` accepted messages be waiting. A lower bound of
    // the number held at a point is (sends returned Ok before) - (receives returned before) - 1 for
    // the message being processed.
    let mut points: Vec<(u64, i64)> = Vec::new();
    for (_, _, _, ret) in &sent_ok {
        points.push((*ret, 1));
    }
    for (_, seq) in &received {
        points.push((*seq, -1));
    }
    points.sort();
    let mut held = 0i64;
    for (seq, d) in points {
        held += d;
        // (one more message may be out of the mailbox already: the one being processed)
        if held > cap + 1 {
            v.push(Violation::new("c12_capacity", format!("at seq {} at least {} accepted messages had not been received yet; the capacity is {}", seq, held, cap)));
            break;
        }
    }
    if let Some(len) = len_final {
        let expect = sent_ok.len() - received.len().min(sent_ok.len());
        if len != expect && recv_err.is_none() {
            v.push(Violation::new("c12_len", format!("the mailbox reports {} messages at the end with no operation in flight; {} were accepted and not received", len, expect)));
        }
    }
    v
}

// ------------------------------------------------------------------ C13: task

pub fn task_rules(t: &TaskCase, log: &[Ev]) -> Vec<Violation> {
    let mut v = Vec::new();
    let evs = comp_events(log);
    let mut cancel_begun: Option<u64> = None; // cancel token used or a runnable dropped
    let mut last_poll_begin: Option<u64> = None;
    let mut wakes: Vec<(u64, u64)> = Vec::new(); // (begin, end)
    let mut open_ops: BTreeMap<u8, (TOp, u64)> = BTreeMap::new();
    let mut ready_promises = 0;
    let mut fut_dropped_at: Option<u64> = None;
    let mut done_at: Option<u64> = None;
    let mut fin = None;
    let mut drain_end: Option<u64> = None;
    let mut panicked = false;
    for (seq, e) in &evs {
        match e {
            CompEv::TPollBegin { n, overlap, after_done, after_drop } => {
                last_poll_begin = Some(*seq);
                if *overlap {
                    v.push(Violation::new("c13_concurrent_poll", format!("poll #{} began (seq {}) while another poll of the same future was in progress", n, seq)));
                }
                if *after_done {
                    v.push(Violation::new("c13_poll_after_completion", format!("poll #{} (seq {}) after the future had returned Ready", n, seq)));
                }
                if *after_drop {
                    v.push(Violation::new("c13_poll_after_drop", format!("poll #{} (seq {}) after the future had been dropped", n, seq)));
                }
            }
            CompEv::TPollEnd { ready, panicked: p, .. } => {
                if *ready {
                    done_at = Some(*seq);
                }
                if *p {
                    panicked = true;
                }
            }
            CompEv::TFutureDropped { while_polling } => {
                if fut_dropped_at.is_some() {
                    v.push(Violation::new("c13_future_dropped_twice", format!("the future was dropped again at seq {} (first at {:?})", seq, fut_dropped_at)));
                }
                if *while_polling {
                    v.push(Violation::new("c13_dropped_while_polled", format!("the future was dropped at seq {} while it was being polled", seq)));
                }
                fut_dropped_at = Some(*seq);
            }
            CompEv::TScheduled { live } => {
                if *live > 1 {
                    v.push(Violation::new("c13_two_runnables", format!("a second Runnable was created at seq {} while one already existed ({} live)", seq, live)));
                }
            }
            CompEv::TOpBegin { thread, op } => {
                open_ops.insert(*thread, (*op, *seq));
                if matches!(op, TOp::Cancel | TOp::DropRunnable) && cancel_begun.is_none() {
                    cancel_begun = Some(*seq);
                }
            }
            CompEv::TOpEnd { thread, op } => {
                if let Some((o, b)) = open_ops.remove(thread) {
                    if o == *op && matches!(op, TOp::WakeVal | TOp::WakeRef) {
                        wakes.push((b, *seq));
                    }
                }
            }
            CompEv::TPromise { stage, .. } => match stage {
                1 => {
                    ready_promises += 1;
                    if ready_promises > 1 {
                        v.push(Violation::new("c13_output_twice", format!("the promise yielded the output a second time at seq {}", seq)));
                    }
                }
                2 => {
                    if cancel_begun.is_none() && !panicked && ready_promises == 0 {
                        v.push(Violation::new("c13_spurious_cancelled", format!("the promise reported Cancelled at seq {} although the task was never cancelled", seq)));
                    }
                }
                9 => v.push(Violation::new("c13_wrong_output", format!("the promise yielded a wrong output at seq {}", seq))),
                _ => {}
            },
            CompEv::TDrainEnd { .. } => drain_end = Some(*seq),
            CompEv::TFinal { polls, completed, future_drops, output_drops, runnables_live } => fin = Some((*polls, *completed, *future_drops, *output_drops, *runnables_live)),
            _ => {}
        }
    }
    // Bounded liveness: a wake-up issued while the task is pending and not cancelled leads to
    // another poll once the run queue has been drained.
    if let Some(de) = drain_end {
        let still_pending = done_at.is_none() && cancel_begun.is_none() && !panicked && fut_dropped_at.map(|d| d > de).unwrap_or(true);
        if still_pending {
            for (b, e) in &wakes {
                if *e < de && last_poll_begin.map(|p| p < *b).unwrap_or(true) {
                    v.push(Violation::new("c13_lost_wake", format!("wake-up at seq {}..{} of a pending, non-cancelled task was not followed by a poll (last poll began at {:?}; run queue drained at seq {})", b, e, last_poll_begin, de)));
                    break;
                }
            }
        }
    }
    if let Some((polls, completed, fdrops, odrops, live)) = fin {
        if fdrops != 1 {
            v.push(Violation::keyed("c13_future_release", if fdrops == 0 { "leak" } else { "double" }, format!("after every handle was released the future had been dropped {} times (polls {}, completed {})", fdrops, polls, completed)));
        }
        let expect_out = completed as u64;
        if odrops != expect_out {
            v.push(Violation::keyed("c13_output_release", if odrops < expect_out { "leak" } else { "double" }, format!("the output was released {} times, expected {} (completed {}, with promise {})", odrops, expect_out, completed, t.with_promise)));
        }
        if live != 0 {
            v.push(Violation::new("c13_runnable_count", format!("{} runnables unaccounted for at the end", live)));
        }
    }
    v
}

// ------------------------------------------------------------------ C15: time cell

pub fn time_rules(t: &TimeCase, log: &[Ev]) -> Vec<Violation> {
    let mut v = Vec::new();
    let evs = comp_events(log);
    let mut last_seen: BTreeMap<u8, i64> = BTreeMap::new();
    for (seq, e) in &evs {
        match e {
            CompEv::TimeRead { reader, published, idx, raw, blocking } => {
                if *idx == -2 {
                    continue;
                }
                if *idx == -1 {
                    v.push(Violation::new("c15_torn_read", format!("reader {} obtained {:?} at seq {} ({}), which is not a value the cell ever held", reader, raw, seq, if *blocking { "read" } else { "try_read" })));
                    continue;
                }
                if (*idx as u64) < *published {
                    v.push(Violation::new("c15_stale_read", format!("reader {} obtained value #{} at seq {} after value #{} had been published to it", reader, idx, seq, published)));
                }
                if let Some(prev) = last_seen.get(reader) {
                    if idx < prev {
                        v.push(Violation::new("c15_backwards", format!("reader {} obtained value #{} at seq {} after it had already observed value #{}", reader, idx, seq, prev)));
                    }
                }
                last_seen.insert(*reader, *idx);
            }
            CompEv::TimeFinal { idx } => {
                if *idx != t.writes as i64 {
                    v.push(Violation::new("c15_final_value", format!("the cell holds value #{} at the end, expected #{}", idx, t.writes)));
                }
            }
            _ => {}
        }
    }
    v
}

// ------------------------------------------------------------------ C14(b): task set

pub fn set_rules(t: &SetCase, log: &[Ev]) -> Vec<Violation> {
    let mut v = Vec::new();
    let evs = comp_events(log);
    let len = t.len.max(1) as usize;
    let mut wakes = vec![0u32; len];
    let mut yields = vec![0u32; len];
    for (seq, e) in &evs {
        match e {
            CompEv::SetWakeBegin { idx, .. } => wakes[*idx as usize % len] += 1,
            CompEv::SetBatch { indices, .. } => {
                let mut seen = HashSet::new();
                for i in indices {
                    if *i >= len {
                        v.push(Violation::new("c14_taskset_bad_index", format!("take_scheduled yielded index {} at seq {} (length {})", i, seq, len)));
                        continue;
                    }
                    if !seen.insert(*i) {
                        v.push(Violation::new("c14_taskset_duplicate", format!("take_scheduled yielded index {} twice in one batch at seq {}: {:?}", i, seq, indices)));
                    }
                    yields[*i] += 1;
                }
            }
            _ => {}
        }
    }
    for i in 0..len {
        if yields[i] > wakes[i] {
            v.push(Violation::new("c14_taskset_spurious", format!("sub-task {} was reported scheduled {} times but woken {} times (stale wake-ups were discarded before)", i, yields[i], wakes[i])));
        }
        if wakes[i] > 0 && yields[i] == 0 {
            v.push(Violation::new("c14_taskset_lost_wake", format!("sub-task {} was woken {} times but never reported as scheduled", i, wakes[i])));
        }
    }
    v
}
