//! Oracles: invariants over the recorded history of one execution, checked
//! against small reference models (connection table, mailbox accounting,
//! agenda, vector clocks, sinks).

use std::collections::BTreeMap;

use crate::case::*;
use crate::ctx::{Actor, Res, TraceEv};
use crate::outcome::{Failure, Outcome};
use crate::hist::Hist;

pub mod agenda;
pub mod comp;
pub mod fault;
pub mod flow;
pub mod sink;
pub mod time;

#[derive(Clone, Debug, serde::Serialize, serde::Deserialize)]
pub struct Violation {
    pub rule: String,
    pub detail: String,
    /// Distinguishing key for the known-findings file (stable across seeds).
    pub key: String,
}

impl Violation {
    pub fn new(rule: &'static str, detail: String) -> Self {
        Self { rule: rule.to_string(), detail, key: String::new() }
    }
    pub fn keyed(rule: &'static str, key: impl Into<String>, detail: String) -> Self {
        Self { rule: rule.to_string(), detail, key: key.into() }
    }
}

/// Strips line/column numbers so that a panic site is identified by file and
/// message only.
pub fn panic_key(s: &str) -> String {
    // "msg @ /repo/nexosim/src/executor/mt_executor.rs:255:65" -> "msg @ executor/mt_executor.rs"
    let (msg, loc) = match s.rsplit_once(" @ ") {
        Some((m, l)) => (m, l),
        None => (s, ""),
    };
    let file = loc.split(':').next().unwrap_or("");
    let file = file.rsplit_once("/src/").map(|x| x.1).unwrap_or(file);
    let msg: String = msg.chars().filter(|c| !c.is_ascii_digit()).take(60).collect();
    format!("{} @ {}", msg, file)
}

/// Rules common to every whole-system check: nothing escapes as a panic, every
/// call returns.
pub fn common(_case: &Case, out: &Outcome, h: &Hist) -> Vec<Violation> {
    let mut v = Vec::new();
    match &out.failure {
        Some(Failure::Deadlock(t)) => {
            let pending = h.cmds.iter().find(|c| c.end.is_none()).map(|c| c.text.clone()).unwrap_or_else(|| "drop/teardown".into());
            let what = pending.split(|c: char| !c.is_alphanumeric()).next().unwrap_or("").to_string();
            v.push(Violation::keyed("no_return", format!("hang in {}", what), format!("all simulated threads blocked during `{}`: {}", pending, t.chars().take(300).collect::<String>())));
        }
        Some(Failure::StepLimit) => {
            let pending = h.cmds.iter().find(|c| c.end.is_none()).map(|c| c.text.clone()).unwrap_or_else(|| "drop/teardown".into());
            v.push(Violation::keyed("no_return", "step limit", format!("step budget exhausted during `{}`", pending)));
        }
        Some(Failure::Panic(t)) => {
            let site = out.last_panic.clone().unwrap_or_else(|| t.clone());
            v.push(Violation::keyed("api_panicked", panic_key(&site), format!("panic escaped a simulated thread: {}", site)));
        }
        None => {}
    }
    for c in &h.cmds {
        if let Some(Res::ApiPanic(p)) = &c.res {
            let site = out.last_panic.clone().unwrap_or_else(|| p.clone());
            v.push(Violation::keyed("api_panicked", panic_key(&site), format!("`{}` panicked: {}", c.text, site)));
        }
    }
    for (rule, detail) in &out.violations {
        let r: &'static str = match rule.as_str() {
            "overlap" => "overlap",
            "api_panicked" => "api_panicked",
            "c11_timeout_not_raised" => "c11_timeout_not_raised",
            "c11_nested_misreported" => "c11_nested_misreported",
            _ => "invariant",
        };
        v.push(Violation::new(r, detail.clone()));
    }
    v
}

/// Task memory: every task allocated by the executors' task module during the execution has been
/// released exactly once when the execution ends (counters of the `TaskAlloc` / `TaskDealloc`
/// hooks placed at the `alloc` / `dealloc` calls). Not judged when a timed-out step of the
/// single-threaded executor was abandoned on its helper thread, which may outlive the check.
pub fn task_memory(case: &Case, out: &Outcome, h: &Hist) -> Vec<Violation> {
    let mut v = Vec::new();
    if out.failure.is_some() {
        return v;
    }
    let Some(info) = out.info.as_ref() else { return v };
    let abandoned = case.cfg.timeout_set && case.cfg.threads <= 1 && h.trace.iter().any(|(_, t)| matches!(t, crate::ctx::TraceEv::TimeoutFired));
    if abandoned || info.probes.len() <= nexosim::verif::Probe::TaskDealloc as usize {
        return v;
    }
    let a = info.probes[nexosim::verif::Probe::TaskAlloc as usize];
    let d = info.probes[nexosim::verif::Probe::TaskDealloc as usize];
    if d < a {
        v.push(Violation::new("task_memory_leaked", format!("{} tasks were allocated but only {} released by the end of the execution", a, d)));
    } else if d > a {
        v.push(Violation::new("task_memory_double_free", format!("{} tasks were allocated but {} releases were made", a, d)));
    }
    v
}

/// Mailbox index (creation order = node index) of a simulator channel id.
pub fn chan_to_node(case: &Case, chan: usize) -> Option<usize> {
    if chan == 0 {
        return None;
    }
    let n = (chan - 1) ^ (case.cfg.chan_mask as usize);
    if n == case.nodes.len() {
        // The one mailbox created after all others: the late mailbox of a sub-model (created in
        // its parent's `build()`); the pre-created mailbox of that node carries no traffic.
        return case.nodes.iter().position(|x| x.late_mailbox);
    }
    (n < case.nodes.len()).then_some(n)
}

/// pushes − pops per mailbox according to the ground-truth trace, considering
/// events with sequence number below `upto`.
pub fn queued_at(case: &Case, h: &Hist, upto: u64) -> BTreeMap<usize, i64> {
    let mut q: BTreeMap<usize, i64> = BTreeMap::new();
    for (seq, t) in &h.trace {
        if *seq >= upto {
            break;
        }
        match t {
            TraceEv::Pushed(c) => {
                if let Some(n) = chan_to_node(case, *c) {
                    *q.entry(n).or_insert(0) += 1;
                }
            }
            TraceEv::Popped(c) => {
                if let Some(n) = chan_to_node(case, *c) {
                    *q.entry(n).or_insert(0) -= 1;
                }
            }
            _ => {}
        }
    }
    q.retain(|_, v| *v != 0);
    q
}

/// One expected delivery of a send operation.
#[derive(Clone, Debug, PartialEq, Eq, PartialOrd, Ord)]
pub struct Delivery {
    pub target: Target,
    pub via: u32,
}

/// The connection table: deliveries a send operation on `port` by `actor`
/// with message salt `salt` must produce. `extra` holds connections added at
/// run time (`Op::Connect`) that completed before the send began.
pub fn expected_deliveries(case: &Case, actor: Actor, port: u16, salt: u32, extra: &[(u16, u8, Edge)]) -> Vec<Delivery> {
    let mut out = Vec::new();
    let edges: Vec<Edge> = connections(case, actor, port, extra);
    if (2000..3000).contains(&port) {
        out.push(Delivery { target: Target::Node(port - 2000), via: 0 });
    }
    for e in edges {
        if e.cid != 0 && e.accepts(salt) {
            out.push(Delivery { target: e.target, via: e.via() });
        }
    }
    out.sort();
    out
}

/// The connections of a port in connection order: the static ones, then those
/// added at run time (`extra`, in the order they were added). Output ports are
/// numbered `0..`, requestor ports `1000..` (`100..` in `Op::Connect`), direct
/// sends `2000 + node`, sources `3000 + source`.
pub fn connections(case: &Case, actor: Actor, port: u16, extra: &[(u16, u8, Edge)]) -> Vec<Edge> {
    let edges: Vec<Edge> = match (actor, port) {
        (Actor::Node(n), p) if p < 1000 => {
            let mut v = resolve_port(case, n as usize, p as usize);
            // Dynamically added connections on this port (or on the port it is a clone of).
            let (rn, rp) = port_root(case, n as usize, p as usize);
            for (xn, xp, e) in extra {
                if *xp < 100 && port_root(case, *xn as usize, *xp as usize) == (rn, rp) {
                    v.push(e.clone());
                }
            }
            v
        }
        (Actor::Node(n), p) if p < 2000 => {
            let (rn, rp) = req_root(case, n as usize, (p - 1000) as usize);
            let mut v = case.nodes[rn].reqs.get(rp).cloned().unwrap_or_default();
            for (xn, xp, e) in extra {
                if *xp >= 100 && req_root(case, *xn as usize, (*xp - 100) as usize) == (rn, rp) {
                    v.push(e.clone());
                }
            }
            v
        }
        (_, p) if p >= 3000 => case.sources.get((p - 3000) as usize).map(|s| s.edges.clone()).unwrap_or_default(),
        _ => vec![],
    };
    edges.into_iter().filter(|e| e.cid != 0).collect()
}

/// Root of a requestor port declared as a clone of another one.
pub fn req_root(case: &Case, n: usize, p: usize) -> (usize, usize) {
    if let Some(e) = case.nodes[n].reqs.get(p).and_then(|v| v.first()) {
        if e.cid == 0 {
            if let (Target::Node(j), Some((255, q))) = (e.target, e.filter) {
                return req_root(case, j as usize, q as usize);
            }
        }
    }
    (n, p)
}

/// If port `p` of node `n` is declared as a clone of another port, returns the
/// root port it shares its connection list with.
pub fn port_root(case: &Case, n: usize, p: usize) -> (usize, usize) {
    if let Some(e) = case.nodes[n].outs.get(p).and_then(|v| v.first()) {
        if e.cid == 0 {
            if let (Target::Node(j), Some((255, q))) = (e.target, e.filter) {
                return port_root(case, j as usize, q as usize);
            }
        }
    }
    (n, p)
}

pub fn resolve_port(case: &Case, n: usize, p: usize) -> Vec<Edge> {
    let (rn, rp) = port_root(case, n, p);
    case.nodes[rn].outs.get(rp).cloned().unwrap_or_default()
}
