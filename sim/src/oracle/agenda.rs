//! Reference agenda model: the set of accepted scheduling requests, their
//! occurrences, cancellations and firings, reconstructed from the recorded
//! history (not from the implementation's queue).

use std::collections::BTreeMap;

use crate::case::Case;
use crate::ctx::{Actor, Res, SchedMode, TraceEv, T};
use crate::hist::Hist;

pub fn add_ns(t: T, ns: u64) -> T {
    let total = t.1 as u64 + ns % 1_000_000_000;
    (t.0 + (ns / 1_000_000_000) as i64 + (total / 1_000_000_000) as i64, (total % 1_000_000_000) as u32)
}

pub fn add_ns128(t: T, ns: u128) -> T {
    let total = t.1 as u128 + ns % 1_000_000_000;
    (t.0 + (ns / 1_000_000_000) as i64 + (total / 1_000_000_000) as i64, (total % 1_000_000_000) as u32)
}

#[derive(Clone, Debug)]
pub struct Action {
    pub sid: u32,
    pub req: usize,
    pub actor: Actor,
    pub target: u16,
    pub period: Option<u128>,
    pub keyed: bool,
    pub via_action: bool,
    /// Possible first deadlines (more than one only when the request raced
    /// with a time update on another thread).
    pub d0: Vec<T>,
    pub accepted: bool,
    /// Handler indices of the firings, in order.
    pub firings: Vec<usize>,
    /// (call seq, ret seq, cancel index) of cancellations of this action.
    pub cancels: Vec<(u64, Option<u64>, usize)>,
}

impl Action {
    /// Deadline of occurrence `k` for first-deadline candidate `c`.
    pub fn occ(&self, c: usize, k: u64) -> T {
        match self.period {
            Some(p) => add_ns128(self.d0[c], p * k as u128),
            None => self.d0[c],
        }
    }
    pub fn origin(&self) -> Actor {
        match self.actor {
            Actor::Node(n) => Actor::Node(n),
            _ => Actor::Driver, // driver and auxiliary threads share the global scheduler origin
        }
    }
}

pub struct Agenda {
    pub actions: Vec<Action>,
    /// (seq, time) of every write of the simulation time.
    pub time_writes: Vec<(u64, T)>,
}

impl Agenda {
    /// Simulation time values held in the window `[from, to]` of sequence numbers.
    pub fn times_in(&self, from: u64, to: u64) -> Vec<T> {
        let mut v = Vec::new();
        let mut last_before: Option<T> = None;
        for (s, t) in &self.time_writes {
            if *s < from {
                last_before = Some(*t);
            } else if *s <= to {
                v.push(*t);
            }
        }
        if let Some(t) = last_before {
            v.insert(0, t);
        }
        v
    }
    pub fn time_at(&self, seq: u64) -> Option<T> {
        self.time_writes.iter().rev().find(|(s, _)| *s < seq).map(|x| x.1)
    }
}

pub fn build(_case: &Case, h: &Hist) -> Agenda {
    let time_writes: Vec<(u64, T)> = h
        .trace
        .iter()
        .filter_map(|(s, t)| match t {
            TraceEv::TimeWritten(a, b) => Some((*s, (*a, *b))),
            _ => None,
        })
        .collect();
    let mut ag = Agenda { actions: Vec::new(), time_writes };
    let mut by_sid: BTreeMap<u32, usize> = BTreeMap::new();
    for (ri, r) in h.scheds.iter().enumerate() {
        let (period, keyed) = match r.mode {
            SchedMode::Plain => (None, false),
            SchedMode::Keyed(_) => (None, true),
            SchedMode::Periodic(p) => (Some(crate::case::period_ns(p)), false),
            SchedMode::KeyedPeriodic(_, p) => (Some(crate::case::period_ns(p)), true),
        };
        let ret = r.ret.unwrap_or(u64::MAX);
        let d0: Vec<T> = match (r.abs, r.rel) {
            (Some(t), _) => vec![t],
            (None, Some(rel)) => {
                // now + rel for every time value the library may have read.
                let times = match r.in_handler {
                    Some(hx) => vec![h.handlers[hx].time],
                    None => ag.times_in(r.call, ret),
                };
                let mut v: Vec<T> = times.into_iter().map(|t| add_ns(t, rel)).collect();
                v.dedup();
                v
            }
            _ => vec![],
        };
        let accepted = matches!(r.res, Some(Res::Ok));
        by_sid.insert(r.sid, ag.actions.len());
        ag.actions.push(Action {
            sid: r.sid,
            req: ri,
            actor: r.actor,
            target: r.target,
            period,
            keyed,
            via_action: r.via_action,
            d0,
            accepted,
            firings: vec![],
            cancels: vec![],
        });
    }
    for (hi, x) in h.handlers.iter().enumerate() {
        if let Some(sid) = x.sid {
            if let Some(ai) = by_sid.get(&sid) {
                ag.actions[*ai].firings.push(hi);
            }
        }
    }
    for (ci, c) in h.cancels.iter().enumerate() {
        if let Some(ai) = by_sid.get(&c.sid) {
            ag.actions[*ai].cancels.push((c.call, c.ret, ci));
        }
    }
    ag
}
