//! Message-flow oracles: conservation (C03), quiescence (C04), isolation
//! (C05), stall reports (C06), causal order (C02), initialisation (C16).

use std::collections::{BTreeMap, BTreeSet};

use super::*;
use crate::ctx::Actor;
use crate::outcome::Outcome;

/// C03: exactly-once delivery against the connection table.
pub fn conservation(case: &Case, h: &Hist) -> Vec<Violation> {
    let mut v = Vec::new();
    let all_ok = h.cmds.iter().all(|c| matches!(c.res, Some(Res::Ok) | Some(Res::BadQuery) | Some(Res::InvalidDeadline)));
    // Observed deliveries per message id.
    let mut observed: BTreeMap<u64, Vec<Delivery>> = BTreeMap::new();
    for x in &h.handlers {
        if x.sid.is_some() {
            continue; // scheduler-originated deliveries are judged by the agenda oracle
        }
        observed.entry(x.msg).or_default().push(Delivery { target: Target::Node(x.node), via: x.via });
    }
    for (_, sink, msg, via, _) in &h.sink_writes {
        observed.entry(*msg).or_default().push(Delivery { target: Target::Sink(*sink), via: *via });
    }
    let extra = dynamic_connections(h);
    let mut known: BTreeSet<u64> = BTreeSet::new();
    for s in &h.sends {
        known.insert(s.msg);
        let extra_now: Vec<(u16, u8, Edge)> = extra.iter().filter(|(seq, ..)| *seq < s.begin).map(|(_, n, p, e)| (*n, *p, e.clone())).collect();
        let mut exp = expected_deliveries(case, s.actor, s.port, s.salt, &extra_now);
        // A direct `process_event`/`process_query` to a mailbox that is not alive delivers nothing.
        if (2000..3000).contains(&s.port) {
            let t = (s.port - 2000) as usize;
            if case.nodes[t].dead {
                exp.clear();
            }
        }
        // Connections added concurrently with the send may or may not be used.
        let racing: Vec<Delivery> = extra
            .iter()
            .filter(|(seq, n, p, _)| {
                *seq >= s.begin
                    && s.end.map(|e| *seq < e).unwrap_or(true)
                    && matches!(s.actor, Actor::Node(a) if same_port(case, a as usize, s.port, *n as usize, *p))
            })
            .filter(|(_, _, _, e)| e.accepts(s.salt))
            .map(|(_, _, _, e)| Delivery { target: e.target, via: e.via() })
            .collect();
        let mut obs = observed.get(&s.msg).cloned().unwrap_or_default();
        obs.sort();
        // Remove at most one occurrence of each racing delivery from the observation.
        for r in &racing {
            if let Some(pos) = obs.iter().position(|o| o == r) {
                if !exp.contains(r) || obs.iter().filter(|o| *o == r).count() > exp.iter().filter(|o| *o == r).count() {
                    obs.remove(pos);
                }
            }
        }
        exp.sort();
        // Always: nothing duplicated, nothing invented.
        let mut exp_left = exp.clone();
        for o in &obs {
            if let Some(pos) = exp_left.iter().position(|e| e == o) {
                exp_left.remove(pos);
            } else {
                v.push(Violation::new(
                    "c03_extra_delivery",
                    format!("message {} (sent by {:?} on port {}) was processed by {:?} via {} more often than its connections allow; expected {:?}, observed {:?}", s.msg, s.actor, s.port, o.target, o.via, exp, obs),
                ));
            }
        }
        // On a successful run: nothing lost.
        if all_ok && !exp_left.is_empty() {
            v.push(Violation::new(
                "c03_lost_delivery",
                format!("message {} (sent by {:?} on port {}, salt {}) never reached {:?}; expected {:?}, observed {:?}", s.msg, s.actor, s.port, s.salt, exp_left, exp, obs),
            ));
        }
    }
    for (msg, obs) in &observed {
        if *msg != 0 && !known.contains(msg) {
            v.push(Violation::new("c03_invented", format!("message {} was processed ({:?}) but never sent", msg, obs)));
        }
    }
    v
}

/// Connections added at run time: (completion seq, node, port, edge).
pub fn dynamic_connections(h: &Hist) -> Vec<(u64, u16, u8, Edge)> {
    let mut out = Vec::new();
    for (seq, note) in &h.notes {
        if let Some(rest) = note.strip_prefix("connect ") {
            let mut node = 0u16;
            let mut port = 0u8;
            let mut target = 0u16;
            let mut cid = 0u32;
            for kv in rest.split(' ') {
                if let Some((k, val)) = kv.split_once('=') {
                    match k {
                        "node" => node = val.parse().unwrap_or(0),
                        "port" => port = val.parse().unwrap_or(0),
                        "target" => target = val.parse().unwrap_or(0),
                        "cid" => cid = val.parse().unwrap_or(0),
                        _ => {}
                    }
                }
            }
            // targets from 10000 on are sinks (see `Op::Connect`)
            let t = if target >= 10_000 { Target::Sink(target - 10_000) } else { Target::Node(target) };
            out.push((*seq, node, port, Edge { cid, target: t, map: true, filter: None }));
        }
    }
    out
}

/// C04 rule 1: when a run command returns `Ok`, nothing is left half-way.
pub fn quiescence(case: &Case, h: &Hist) -> Vec<Violation> {
    let mut v = Vec::new();
    for c in &h.cmds {
        let (Some(end), Some(Res::Ok)) = (c.end, c.res.as_ref()) else { continue };
        if !is_run_cmd(&c.text) {
            continue;
        }
        for x in &h.handlers {
            if x.begin < end && x.end.map(|e| e > end).unwrap_or(true) {
                v.push(Violation::new(
                    "c04_handler_unfinished",
                    format!("`{}` returned Ok at seq {} while the handler of node {} for message {} (begun at seq {}) had not finished", c.text, end, x.node, x.msg, x.begin),
                ));
            }
        }
        let q = queued_at(case, h, end);
        if !q.is_empty() {
            v.push(Violation::new("c04_messages_queued", format!("`{}` returned Ok with messages still queued (mailbox -> count): {:?}", c.text, q)));
        }
        for s in &h.sends {
            if s.begin < end && s.end.map(|e| e > end).unwrap_or(true) && matches!(s.actor, Actor::Node(_)) {
                v.push(Violation::new("c04_send_unfinished", format!("`{}` returned Ok while a send of message {} by {:?} was still in progress", c.text, s.msg, s.actor)));
            }
        }
    }
    v
}

pub fn is_run_cmd(text: &str) -> bool {
    text.starts_with("Init") || text.starts_with("Step") || text.starts_with("Process")
}

/// C04 rule 4 for benches that cannot stall: every command succeeds.
pub fn all_ok(h: &Hist) -> Vec<Violation> {
    let mut v = Vec::new();
    for c in &h.cmds {
        match &c.res {
            Some(Res::Ok) | None => {}
            Some(r) => v.push(Violation::keyed("c04_spurious_error", r.class(), format!("`{}` returned {:?} on a bench that cannot stall or fail", c.text, r))),
        }
    }
    v
}

/// Per-command multiset of handler invocations and sink writes, identified by
/// content only (C04 rule 2).
pub fn content_multiset(h: &Hist) -> BTreeMap<u16, BTreeMap<(u16, u8, u32, u32, bool, bool), u32>> {
    let mut m: BTreeMap<u16, BTreeMap<(u16, u8, u32, u32, bool, bool), u32>> = BTreeMap::new();
    for x in &h.handlers {
        *m.entry(x.cmd).or_default().entry((x.node, x.kind, x.salt, x.via, x.query, false)).or_insert(0) += 1;
    }
    for (seq, sink, _msg, via, salt) in &h.sink_writes {
        let cmd = h.cmds.iter().rev().find(|c| c.begin <= *seq).map(|c| c.idx).unwrap_or(0);
        *m.entry(cmd).or_default().entry((*sink, 0, *salt, *via, false, true)).or_insert(0) += 1;
    }
    m
}

/// C05: one computation at a time per model.
pub fn isolation(_case: &Case, h: &Hist) -> Vec<Violation> {
    let mut v = Vec::new();
    for x in &h.handlers {
        if x.overlap {
            v.push(Violation::new("c05_overlap_flag", format!("handler of node {} for message {} began (seq {}) while another computation of the same model was in progress", x.node, x.msg, x.begin)));
        }
    }
    // Intervals per node, in begin order, must not overlap.
    let mut per: BTreeMap<u16, Vec<(u64, Option<u64>, String)>> = BTreeMap::new();
    for r in &h.inits {
        per.entry(r.node).or_default().push((r.begin, r.end, "init".into()));
    }
    for x in &h.handlers {
        per.entry(x.node).or_default().push((x.begin, x.end, format!("msg {}", x.msg)));
    }
    for (node, mut iv) in per {
        iv.sort();
        for w in iv.windows(2) {
            let (b0, e0, ref n0) = w[0];
            let (b1, _, ref n1) = w[1];
            let over = match e0 {
                Some(e) => e > b1,
                None => true,
            };
            // An unfinished computation is only legal as the very last one (stall, panic, time-out).
            if over {
                v.push(Violation::new("c05_interleaved", format!("node {}: computation `{}` [{}..{:?}] overlaps `{}` starting at {}", node, n0, b0, e0, n1, b1)));
            }
        }
    }
    v
}

/// C06: the stall report is exact with respect to the ground-truth trace.
pub fn stall_report(case: &Case, h: &Hist) -> Vec<Violation> {
    let mut v = Vec::new();
    for c in &h.cmds {
        let (Some(_), Some(res)) = (c.end, c.res.as_ref()) else { continue };
        if !is_run_cmd(&c.text) {
            continue;
        }
        match res {
            Res::Ok | Res::Deadlock(_) | Res::MessageLoss(_) => {}
            _ => break, // other results are outside this oracle; later commands are terminated
        }
        v.extend(stall_check_cmd(case, h, c));
        if !matches!(res, Res::Ok) {
            break;
        }
    }
    v
}

/// Judges the result of one run command (`Ok`, `Deadlock` or `MessageLoss`)
/// against pushes - pops per mailbox at the moment the command returned.
pub fn stall_check_cmd(case: &Case, h: &Hist, c: &crate::hist::CmdRec) -> Vec<Violation> {
    let mut v = Vec::new();
    let (Some(end), Some(res)) = (c.end, c.res.as_ref()) else { return v };
    let q = queued_at(case, h, end);
    let in_sim: Vec<(String, usize)> = {
        let mut l: Vec<(String, usize)> = q.iter().filter(|(n, c)| case.in_sim(**n) && **c > 0).map(|(n, c)| (case.fq_name(*n), *c as usize)).collect();
        l.sort();
        l
    };
    let orphan_total: i64 = q.iter().filter(|(n, _)| !case.in_sim(**n)).map(|(_, c)| *c).sum();
    let negative = q.values().any(|c| *c < 0);
    if negative {
        v.push(Violation::new("harness_trace", format!("negative queue count {:?}", q)));
    }
    let has_sub = q.keys().any(|n| case.in_sim(*n) && case.nodes[*n].parent.is_some());
    let shape = if has_sub { "submodel" } else { "toplevel" };
    match res {
        Res::Ok => {
            if !q.is_empty() {
                v.push(Violation::keyed("c06_missed_stall", shape, format!("`{}` returned Ok although messages are queued: {:?}", c.text, q)));
            }
        }
        Res::Deadlock(list) => {
            if in_sim.is_empty() {
                v.push(Violation::keyed("c06_false_deadlock", shape, format!("`{}` reported Deadlock({:?}) but no model of the simulation holds a message (queued: {:?})", c.text, list, q)));
            } else if *list != in_sim {
                v.push(Violation::keyed("c06_wrong_deadlock_list", shape, format!("`{}` reported Deadlock({:?}); exact list is {:?}", c.text, list, in_sim)));
            }
        }
        Res::MessageLoss(n) => {
            if q.is_empty() {
                v.push(Violation::keyed("c06_false_message_loss", "all_processed", format!("`{}` reported MessageLoss({}) although every sent message was processed", c.text, n)));
            } else if !in_sim.is_empty() {
                v.push(Violation::keyed("c06_loss_instead_of_deadlock", shape, format!("`{}` reported MessageLoss({}) but models of the simulation hold messages: {:?}", c.text, n, in_sim)));
            } else if *n as i64 != orphan_total {
                v.push(Violation::keyed("c06_wrong_loss_count", shape, format!("`{}` reported MessageLoss({}); {} messages sit in orphan mailboxes", c.text, n, orphan_total)));
            }
        }
        _ => {}
    }
    v
}

/// C02: causal delivery order, from vector clocks reconstructed offline.
///
/// Every actor counts its *completed* port operations. A message carries the
/// knowledge its sender had when the operation began. Delivery `d1 = (A, n)`
/// to `B` happens-before delivery `d2` to `B` iff the knowledge carried by
/// `d2` includes the completion of A's n-th operation (or, for the same
/// operation, never: deliveries of one broadcast are unordered).
pub fn causal_order(case: &Case, h: &Hist) -> Vec<Violation> {
    let n = case.nodes.len();
    let na = n + 1; // + driver
    let aidx = |a: Actor| -> Option<usize> {
        match a {
            Actor::Node(i) => Some(i as usize),
            Actor::Driver => Some(n),
            Actor::Aux(_) => None,
        }
    };
    // Events in sequence order.
    #[derive(Clone)]
    enum E {
        SendBegin(usize),
        SendEnd(usize),
        HBegin(usize),
        HEnd(usize),
        CmdBegin,
    }
    let mut evs: Vec<(u64, E)> = Vec::new();
    for (i, s) in h.sends.iter().enumerate() {
        evs.push((s.begin, E::SendBegin(i)));
        if let Some(e) = s.end {
            evs.push((e, E::SendEnd(i)));
        }
    }
    for (i, x) in h.handlers.iter().enumerate() {
        evs.push((x.begin, E::HBegin(i)));
        if let Some(e) = x.end {
            evs.push((e, E::HEnd(i)));
        }
    }
    for c in &h.cmds {
        evs.push((c.begin, E::CmdBegin));
    }
    evs.sort_by_key(|e| e.0);

    let mut clock: Vec<Vec<u32>> = vec![vec![0; na]; na];
    // per message id: (sender actor idx, op number, knowledge)
    let mut stamp: BTreeMap<u64, (usize, u32, Vec<u32>)> = BTreeMap::new();
    // knowledge of repliers at the end of handling a query message
    let mut reply_knowledge: BTreeMap<u64, Vec<Vec<u32>>> = BTreeMap::new();
    // per node: processed deliveries in order (msg id)
    let mut processed: Vec<Vec<(u64, u64)>> = vec![Vec::new(); n];
    let merge = |a: &mut Vec<u32>, b: &Vec<u32>| {
        for (x, y) in a.iter_mut().zip(b.iter()) {
            if *y > *x {
                *x = *y;
            }
        }
    };
    for (_, e) in evs {
        match e {
            E::CmdBegin => {
                // The driver has observed the completion of everything before.
                let all: Vec<Vec<u32>> = clock.clone();
                for c in &all {
                    merge(&mut clock[n], c);
                }
            }
            E::SendBegin(i) => {
                let s = &h.sends[i];
                if let Some(a) = aidx(s.actor) {
                    let opn = clock[a][a] + 1;
                    stamp.insert(s.msg, (a, opn, clock[a].clone()));
                }
            }
            E::SendEnd(i) => {
                let s = &h.sends[i];
                if let Some(a) = aidx(s.actor) {
                    clock[a][a] += 1;
                    if s.query {
                        if let Some(ks) = reply_knowledge.get(&s.msg) {
                            for k in ks.clone() {
                                merge(&mut clock[a], &k);
                            }
                        }
                    }
                }
            }
            E::HBegin(i) => {
                let x = &h.handlers[i];
                if let Some((_, _, k)) = stamp.get(&x.msg) {
                    let k = k.clone();
                    merge(&mut clock[x.node as usize], &k);
                }
                processed[x.node as usize].push((x.msg, x.begin));
            }
            E::HEnd(i) => {
                let x = &h.handlers[i];
                if x.query {
                    reply_knowledge.entry(x.msg).or_default().push(clock[x.node as usize].clone());
                }
            }
        }
    }
    let mut v = Vec::new();
    for (node, list) in processed.iter().enumerate() {
        for j in 0..list.len() {
            let Some((a1, n1, _)) = stamp.get(&list[j].0) else { continue };
            // Any earlier-processed message whose knowledge includes (a1, n1) completed?
            for i in 0..j {
                let Some((a0, n0, k0)) = stamp.get(&list[i].0) else { continue };
                if (a0, n0) == (a1, n1) {
                    continue; // same operation: unordered
                }
                if k0[*a1] >= *n1 {
                    v.push(Violation::new(
                        "c02_causal_order",
                        format!(
                            "node {} processed message {} (seq {}) before message {} (seq {}), although the sending of {} (op {} of actor {}) had completed before {} was sent",
                            node, list[i].0, list[i].1, list[j].0, list[j].1, list[j].0, n1, a1, list[i].0
                        ),
                    ));
                }
            }
        }
    }
    v
}

/// C16: every model of the simulation is initialised exactly once, before it
/// handles anything, under its fully qualified name.
pub fn initialisation(case: &Case, h: &Hist) -> Vec<Violation> {
    let mut v = Vec::new();
    let init_cmd = h.cmd(0);
    let init_ok = matches!(init_cmd.and_then(|c| c.res.as_ref()), Some(Res::Ok));
    for i in 0..case.nodes.len() {
        let recs: Vec<_> = h.inits.iter().filter(|r| r.node as usize == i).collect();
        if case.in_sim(i) {
            if init_ok && recs.len() != 1 {
                v.push(Violation::new("c16_init_count", format!("model {} ({}) was initialised {} times", i, case.fq_name(i), recs.len())));
            }
            if recs.len() > 1 {
                v.push(Violation::new("c16_init_count", format!("model {} ({}) was initialised {} times", i, case.fq_name(i), recs.len())));
            }
        } else if !recs.is_empty() {
            v.push(Violation::new("c16_init_foreign", format!("mailbox {} does not belong to the simulation but a model was initialised for it", i)));
        }
        for r in &recs {
            if r.name != case.fq_name(i) {
                v.push(Violation::new("c16_name", format!("model {} saw name `{}` in its context, expected `{}`", i, r.name, case.fq_name(i))));
            }
            if let Some(c) = init_cmd {
                let inside = r.begin > c.begin && c.end.map(|e| r.begin < e).unwrap_or(true);
                if !inside {
                    v.push(Violation::new("c16_init_outside", format!("init of model {} began at seq {} outside SimInit::init [{}..{:?}]", i, r.begin, c.begin, c.end)));
                }
                if init_ok && r.end.map(|e| c.end.map(|ce| e > ce).unwrap_or(false)).unwrap_or(true) {
                    v.push(Violation::new("c16_init_unfinished", format!("SimInit::init returned Ok before init of model {} finished", i)));
                }
            }
        }
        for x in h.handlers.iter().filter(|x| x.node as usize == i) {
            match recs.first() {
                None => v.push(Violation::new("c16_handler_without_init", format!("model {} handled message {} without ever being initialised", i, x.msg))),
                Some(r) => {
                    if r.end.map(|e| e > x.begin).unwrap_or(true) {
                        v.push(Violation::new("c16_handler_before_init", format!("model {} handled message {} (seq {}) before its init finished ({:?})", i, x.msg, x.begin, r.end)));
                    }
                }
            }
        }
    }
    v
}

/// C19: after the simulation and every external handle were dropped, every
/// model, message, reply and handler future has been released exactly once, no
/// model code ran after the drop returned and nothing owned by the executor
/// was released later than that.
pub fn drop_rules(case: &Case, out: &Outcome, h: &Hist) -> Vec<Violation> {
    let mut v = Vec::new();
    if out.failure.is_some() || !out.info.as_ref().map(|i| i.completed).unwrap_or(false) {
        return v; // the common rules report executions that did not reach the end
    }
    let timed_out_st = case.cfg.threads <= 1 && h.trace.iter().any(|(_, t)| matches!(t, TraceEv::TimeoutFired));
    let key = if timed_out_st { "st_timeout" } else if case.cfg.threads <= 1 { "st" } else { "mt" };
    if !out.live_tokens.is_empty() {
        let mut kinds: BTreeMap<String, usize> = BTreeMap::new();
        for (_, k) in &out.live_tokens {
            *kinds.entry(format!("{:?}", k)).or_insert(0) += 1;
        }
        v.push(Violation::keyed("c19_leak", key, format!("after dropping the simulation and all handles {} objects were never released: {:?} (created {})", out.live_tokens.len(), kinds, out.tokens_created)));
    }
    if !out.double_drops.is_empty() {
        v.push(Violation::keyed("c19_double_drop", key, format!("objects released more than once: tokens {:?}", out.double_drops)));
    }
    if !out.after_drop.is_empty() {
        v.push(Violation::keyed("c19_model_code_after_drop", key, format!("model code ran after drop(Simulation) had returned: {:?}", out.after_drop)));
    }
    if !out.late_drops.is_empty() {
        v.push(Violation::keyed("c19_released_after_drop", key, format!("{} models / handler futures were released only after drop(Simulation) had returned", out.late_drops.len())));
    }
    v
}

/// Does the send port `sport` (0.. outputs, 1000.. requestors) of node `a` share its connection
/// list with the port named by `Op::Connect { port: cport }` (0.. outputs, 100.. requestors) of node `n`?
pub fn same_port(case: &Case, a: usize, sport: u16, n: usize, cport: u8) -> bool {
    if sport < 1000 {
        cport < 100 && port_root(case, a, sport as usize) == port_root(case, n, cport as usize)
    } else if sport < 2000 {
        cport >= 100 && req_root(case, a, (sport - 1000) as usize) == req_root(case, n, (cport - 100) as usize)
    } else {
        false
    }
}

/// C14: a completed query yields exactly one reply per accepting connection, computed by that
/// connection's replier from its mapped request, in connection order, and only after every such
/// replier has finished.
pub fn query_replies(case: &Case, h: &Hist) -> Vec<Violation> {
    let mut v = Vec::new();
    let extra = dynamic_connections(h);
    for s in &h.sends {
        let (true, Some(end)) = (s.query, s.end) else { continue };
        // A query whose command failed may have been cut short.
        if !matches!(h.cmd(s.cmd).and_then(|c| c.res.as_ref()), Some(Res::Ok)) {
            continue;
        }
        let before: Vec<(u16, u8, Edge)> = extra.iter().filter(|(seq, ..)| *seq < s.begin).map(|(_, n, p, e)| (*n, *p, e.clone())).collect();
        let racing: Vec<Edge> = extra
            .iter()
            .filter(|(seq, n, p, _)| *seq >= s.begin && *seq < end && matches!(s.actor, Actor::Node(a) if same_port(case, a as usize, s.port, *n as usize, *p)))
            .map(|(_, _, _, e)| e.clone())
            .collect();
        let conns: Vec<Edge> = if (2000..3000).contains(&s.port) {
            vec![Edge { cid: u32::MAX, target: Target::Node(s.port - 2000), map: false, filter: None }]
        } else {
            connections(case, s.actor, s.port, &before)
        };
        let expected: Vec<(u16, u64, u32, u32)> = conns
            .iter()
            .filter(|e| e.accepts(s.salt))
            .filter_map(|e| match e.target {
                Target::Node(t) => Some((t, s.msg, e.via(), e.via())),
                _ => None,
            })
            .collect();
        // A model may read only the first replies and drop the rest.
        let mut expected = expected;
        if let Actor::Node(n) = s.actor {
            if let Some(t) = case.nodes[n as usize].reply_take {
                expected.truncate(t as usize);
            }
        }
        let full_expected_len = expected.len();
        let _ = full_expected_len;
        // Connections added while the query was in flight may or may not take part (at the end).
        let mut got = s.replies.clone();
        if got.len() > expected.len() && !racing.is_empty() {
            let tail: Vec<_> = got[expected.len()..].to_vec();
            let ok = tail.iter().all(|r| racing.iter().any(|e| matches!(e.target, Target::Node(t) if t == r.0) && e.via() == r.2 && e.via() == r.3 && r.1 == s.msg));
            if ok {
                got.truncate(expected.len());
            }
        }
        if got != expected {
            let how = if got.len() < expected.len() {
                "missing"
            } else if got.len() > expected.len() {
                "extra"
            } else {
                let mut a = got.clone();
                let mut b = expected.clone();
                a.sort();
                b.sort();
                if a == b { "order" } else { "mismatch" }
            };
            v.push(Violation::keyed(
                "c14_replies",
                how,
                format!("query {} by {:?} on port {} (salt {}) returned replies (replier, request, via seen by replier, reply map) {:?}; its connections call for {:?}", s.msg, s.actor, s.port, s.salt, got, expected),
            ));
        }
        // Returned only after every accepting replier finished handling the request.
        for (t, msg, via, _) in &expected {
            let done = h.handlers.iter().any(|x| x.node == *t && x.msg == *msg && x.query && x.via == *via && x.end.map(|e| e < end).unwrap_or(false));
            if !done {
                v.push(Violation::new("c14_returned_early", format!("query {} by {:?} on port {} completed at seq {} before the replier on node {} (via {}) had finished handling it", s.msg, s.actor, s.port, end, t, via)));
            }
        }
    }
    v
}
