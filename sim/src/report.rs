//! Verdicts, replay files, evidence files, known findings.

use std::collections::BTreeMap;
use std::path::{Path, PathBuf};
use std::sync::Arc;

use serde::{Deserialize, Serialize};

use crate::case::Case;
#[cfg(feature = "e1")]
use crate::engine;
use crate::explore::{Found, Group, PropSpec, RunResult};
use crate::hist::Hist;
use crate::props;
use crate::outcome::{SchedKind, SchedSpec};

pub fn verif_dir() -> PathBuf {
    std::env::var_os("NXV_DIR").map(PathBuf::from).unwrap_or_else(|| PathBuf::from("/verif"))
}

#[derive(Clone, Debug, Serialize, Deserialize)]
pub struct Finding {
    pub status: String,
    pub property: String,
    pub rule: String,
    #[serde(default)]
    pub key: String,
    pub what: String,
    #[serde(default)]
    pub commit: Option<String>,
}

#[derive(Clone, Debug, Serialize, Deserialize, Default)]
pub struct KnownFindings {
    pub findings: Vec<Finding>,
}

pub fn load_known() -> KnownFindings {
    // Maintenance switch: report the listed findings as violations again (used to regenerate the
    // replay files under findings/ after the harness changed).
    if std::env::var_os("NXV_IGNORE_KNOWN").is_some() {
        return KnownFindings::default();
    }
    let p = verif_dir().join("known_findings.json");
    match std::fs::read_to_string(&p) {
        Ok(s) => serde_json::from_str(&s).unwrap_or_else(|e| {
            eprintln!("harness error: cannot parse {}: {}", p.display(), e);
            std::process::exit(2);
        }),
        Err(_) => KnownFindings::default(),
    }
}

#[derive(Clone, Debug, Serialize, Deserialize)]
pub struct ReplayFile {
    pub property: String,
    pub rule: String,
    pub key: String,
    pub detail: String,
    pub verif_seed: u64,
    pub case_seed: u64,
    pub engine: String,
    pub case: Case,
    pub schedule: SchedSpec,
    pub repo: String,
}

fn repo_describe() -> String {
    std::process::Command::new("git")
        .args(["-C", "/repo", "log", "-1", "--format=%h %s"])
        .output()
        .ok()
        .map(|o| String::from_utf8_lossy(&o.stdout).trim().to_string())
        .unwrap_or_default()
}

pub fn write_replay(prop: &str, seed: u64, f: &Found) -> PathBuf {
    let dir = verif_dir().join("replays");
    let _ = std::fs::create_dir_all(&dir);
    let mut spec = f.spec.clone();
    if spec.switches.is_none() {
        spec.replay = Some(f.decisions.clone());
    }
    let rf = ReplayFile {
        property: prop.to_string(),
        rule: f.violation.rule.to_string(),
        key: f.violation.key.clone(),
        detail: f.violation.detail.clone(),
        verif_seed: seed,
        case_seed: f.case_seed,
        engine: "E1-shuttle".into(),
        case: f.case.clone(),
        schedule: spec,
        repo: repo_describe(),
    };
    let path = dir.join(format!("{}-{}-{:016x}.json", prop, f.violation.rule, f.case_seed));
    std::fs::write(&path, serde_json::to_string_pretty(&rf).unwrap()).unwrap();
    path
}

/// Re-executes a replay file in a child process under a watchdog: a replay that kills its process
/// or never returns is a `no_return` violation like the one a worker reports.
#[cfg(feature = "e1")]
pub fn replay(path: &str) -> i32 {
    let Ok(exe) = std::env::current_exe() else { return 2 };
    let Ok(mut child) = std::process::Command::new(exe).arg("replay-inner").arg(path).spawn() else { return 2 };
    let start = std::time::Instant::now();
    let status = loop {
        match child.try_wait() {
            Ok(Some(st)) => break Some(st),
            Err(_) => break None,
            Ok(None) => {
                if start.elapsed() > std::time::Duration::from_secs(120) {
                    let _ = child.kill();
                    let _ = child.wait();
                    break None;
                }
                std::thread::sleep(std::time::Duration::from_millis(20));
            }
        }
    };
    match status.and_then(|s| s.code()) {
        Some(c) if c == 0 || c == 1 || c == 2 => c,
        other => {
            let prop = std::fs::read_to_string(path).ok().and_then(|t| serde_json::from_str::<ReplayFile>(&t).ok()).map(|r| r.property).unwrap_or_default();
            println!("replayed: rule=no_return key=process_killed the replay did not return (killed by the watchdog or the process died: {:?})", other);
            println!("VIOLATION property={} replay={}", prop, path);
            1
        }
    }
}

#[cfg(feature = "e1")]
/// Re-executes a replay file; exit code 1 (and a VIOLATION line) iff the same
/// rule fires again.
pub fn replay_inner(path: &str) -> i32 {
    let s = match std::fs::read_to_string(path) {
        Ok(s) => s,
        Err(e) => {
            eprintln!("harness error: cannot read {}: {}", path, e);
            return 2;
        }
    };
    let rf: ReplayFile = match serde_json::from_str(&s) {
        Ok(r) => r,
        Err(e) => {
            eprintln!("harness error: cannot parse {}: {}", path, e);
            return 2;
        }
    };
    let Some(prop) = props::find(&rf.property) else {
        eprintln!("harness error: unknown property {}", rf.property);
        return 2;
    };
    let case = Arc::new(rf.case.clone());
    let out = engine::execute(&case, &rf.schedule);
    let h = Hist::build(&out.log);
    let mut g = Group::default();
    let viols = (prop.check)(&case, &out, &h, &mut g);
    if std::env::var_os("NXV_DUMP_LOG").is_some() {
        let n = out.log.len();
        for (i, e) in out.log.iter().enumerate().skip(n.saturating_sub(60)) {
            println!("log[{}] {:?}", i, e);
        }
        let d = &out.sched.decisions;
        let mut per: BTreeMap<u16, u64> = BTreeMap::new();
        for t in d.iter().skip(d.len().saturating_sub(20_000)) {
            *per.entry(*t).or_insert(0) += 1;
        }
        println!("scheduling points: {} (last 20000 by thread: {:?}), failure: {:?}", d.len(), per, out.failure);
    }
    if out.sched.replay_diverged {
        println!("note: the recorded schedule could not be followed exactly (a recorded thread was not runnable)");
    }
    for v in &viols {
        println!("replayed: rule={} key={} {}", v.rule, v.key, v.detail);
    }
    if viols.iter().any(|v| v.rule == rf.rule) {
        println!("VIOLATION property={} replay={}", rf.property, path);
        1
    } else {
        println!("replay of {} did not reproduce rule {}", path, rf.rule);
        0
    }
}

pub fn finish(prop: &'static PropSpec, seed: u64, thorough: bool, res: &RunResult) -> i32 {
    let known = load_known();
    let mut code = 0;
    let mut reported_known: BTreeMap<(String, String), u64> = BTreeMap::new();
    let mut new_violations = 0;
    let mut printed: BTreeMap<(String, String), ()> = BTreeMap::new();
    for f in &res.found {
        let k = (f.violation.rule.to_string(), f.violation.key.clone());
        let is_known = known
            .findings
            .iter()
            .any(|x| x.status == "open" && x.property == prop.id && x.rule == k.0 && (x.key.is_empty() || x.key == k.1));
        if is_known {
            *reported_known.entry(k).or_insert(0) += 1;
            continue;
        }
        new_violations += 1;
        if printed.contains_key(&k) || printed.len() >= 3 {
            continue;
        }
        printed.insert(k, ());
        // The replay file is written first; minimisation then runs in a child process (the failing
        // execution may corrupt memory or abort) and rewrites the file if it succeeds.
        let path = write_replay(prop.id, seed, f);
        minimise_in_child(&path);
        println!("violation: rule={} key={} :: {}", f.violation.rule, f.violation.key, f.violation.detail);
        println!("VIOLATION property={} replay={}", prop.id, path.display());
        code = 1;
    }
    for ((rule, key), n) in &reported_known {
        let what = known
            .findings
            .iter()
            .find(|x| x.status == "open" && x.property == prop.id && x.rule == *rule && (x.key.is_empty() || x.key == *key))
            .map(|x| x.what.clone())
            .unwrap_or_default();
        println!("KNOWN-FINDING: property={} rule={} key={} ({} executions) {}", prop.id, rule, key, n, what);
    }
    write_evidence(prop, seed, thorough, res, new_violations);
    let s = &res.stats;
    println!(
        "{} {}: cases={} executions={} distinct_interleavings={} distinct_histories={} nontrivial={} scheduling_points={} wall={:.1}s{}",
        prop.id,
        if thorough { "thorough" } else { "quick" },
        s.cases,
        s.executions,
        s.n_interleavings,
        s.n_histories,
        s.n_nontrivial,
        s.steps,
        res.wall.as_secs_f64(),
        if s.truncated { " (truncated by wall-clock cap)" } else { "" }
    );
    if s.n_nontrivial < 2 && code == 0 {
        eprintln!("harness error: fewer than 2 non-trivial executions — the workload does not exercise the property");
        return 2;
    }
    code
}

fn minimise_in_child(path: &Path) {
    let Ok(exe) = std::env::current_exe() else { return };
    let Ok(mut child) = std::process::Command::new(exe).arg("minimise").arg(path).stdout(std::process::Stdio::null()).spawn() else { return };
    let start = std::time::Instant::now();
    loop {
        match child.try_wait() {
            Ok(Some(_)) | Err(_) => break,
            Ok(None) => {
                if start.elapsed() > std::time::Duration::from_secs(90) {
                    let _ = child.kill();
                    let _ = child.wait();
                    break;
                }
                std::thread::sleep(std::time::Duration::from_millis(20));
            }
        }
    }
}

/// `nxv minimise <replay file>`: minimises the recorded (case, schedule) pair and rewrites the
/// file in place (atomically) if the same rule still fires.
#[cfg(feature = "e1")]
pub fn minimise_file(path: &str) -> i32 {
    let Ok(text) = std::fs::read_to_string(path) else { return 2 };
    let Ok(rf) = serde_json::from_str::<ReplayFile>(&text) else { return 2 };
    let Some(prop) = props::find(&rf.property) else { return 2 };
    let decisions = rf.schedule.replay.clone().unwrap_or_default();
    let found = Found {
        case: rf.case.clone(),
        spec: rf.schedule.clone(),
        violation: crate::oracle::Violation { rule: rf.rule.clone(), detail: rf.detail.clone(), key: rf.key.clone() },
        case_seed: rf.case_seed,
        decisions,
    };
    let min = crate::minimise::minimise(prop, &found);
    let mut spec = min.spec.clone();
    if spec.switches.is_none() {
        spec.replay = Some(min.decisions.clone());
    }
    let out = ReplayFile { case: min.case.clone(), schedule: spec, detail: min.violation.detail.clone(), ..rf };
    let tmp = format!("{}.tmp", path);
    if std::fs::write(&tmp, serde_json::to_string_pretty(&out).unwrap()).is_ok() {
        let _ = std::fs::rename(&tmp, path);
    }
    0
}

pub fn probe_names() -> Vec<&'static str> {
    vec![
        "push_full",
        "push_closed",
        "last_worker_recheck",
        "last_worker_parks",
        "worker_parks",
        "repoll_after_wake",
        "wind_down_cancel",
        "bucket_overflow",
        "steal_success",
        "seqlock_retry",
        "broadcast_slow_path",
        "search_expired",
        "timeout_injected",
        "recv_waited",
        "seq_actions",
        "cancelled_discarded",
        "task_alloc",
        "task_dealloc",
    ]
}

pub fn write_evidence(prop: &PropSpec, seed: u64, thorough: bool, res: &RunResult, violations: usize) {
    let s = &res.stats;
    let dir = verif_dir().join("evidence");
    let _ = std::fs::create_dir_all(&dir);
    let wall = res.wall.as_secs_f64().max(1e-6);
    let probes: BTreeMap<&str, u64> = probe_names().into_iter().zip(s.probes.iter().copied()).collect();
    let gaps: Vec<&str> = probes.iter().filter(|(_, v)| **v == 0).map(|(k, _)| *k).collect();
    let level = crate::props::level_of(prop.id);
    let ev = serde_json::json!({
        "property_id": prop.id,
        "tier": if thorough { "thorough" } else { "quick" },
        "seed": seed,
        "level": level,
        "wall_s": res.wall.as_secs_f64(),
        "violations": violations,
        "coverage": {
            "evaluations": s.executions,
            "distinct_nontrivial": s.n_nontrivial,
            "rule": prop.rule,
            "samples": s.samples,
            "cases_generated": s.cases,
            "distinct_interleavings": s.n_interleavings,
            "distinct_observable_histories": s.n_histories,
            "scheduling_points": s.steps,
            "choice_points": s.choice_points,
            "context_switches": s.context_switches,
            "simulated_time_covered_s": (s.sim_time_ns as f64) / 1e9,
            "executions_per_hour": (s.executions as f64) / wall * 3600.0,
            "seeds_per_hour": (s.cases as f64) / wall * 3600.0,
            "fault_kinds_fired": s.faults,
            "probe_hits": probes,
            "probes_never_hit": gaps,
            "scheduler_mix": s.sched_mix,
            "thread_count_histogram": s.threads_hist,
            "command_results": s.results,
            "truncated_by_wall_clock_cap": s.truncated,
            "engine": "E1: shuttle 0.9.3 with harness-owned recording scheduler (uniform random, sticky random, PCT depth 1-6, round-robin)",
            "real_code": match prop.id {
                "C12" => vec!["nexosim::channel::queue::Queue (through verif::exports::VQueue)", "nexosim::channel::{Sender, Receiver} with a real Context (VSender / VReceiver)", "async-event (logic)", "diatomic-waker", "recycle-box"],
                "C13" => vec!["nexosim::executor::task::{spawn, spawn_and_forget, Runnable, Promise, CancelToken, wakers} (through verif::exports)"],
                "C15" => vec!["nexosim::util::sync_cell::SyncCell<TearableAtomicTime> and its readers (through verif::exports::VTimeCell)"],
                _ => vec!["nexosim: Simulation, SimInit, Scheduler, both executors, task state machine, mailbox channel and queue, ports/broadcasters, sinks, seqlock time cell", "st3", "diatomic-waker", "multishot", "async-event (logic)", "recycle-box", "slab"],
            },
            "harness_stubs": match prop.id {
                "C12" => vec!["producer / consumer threads and a minimal block_on executor (harness)", "the model on the receiving end stores the last value (VModel)"],
                "C13" => vec!["the future under test, the run queue and the scheduling function are harness code"],
                "C15" => vec!["writer and reader threads, the release/acquire publication counter (harness)"],
                "C14" => vec!["15 % of the cases: owner future mirroring BroadcastFuture::poll and waker threads around the real TaskSet (harness)"],
                _ => vec!["scripted models (Node), driver script, scripted clock (harness)"],
            },
            "substituted": ["std::sync/std::thread/thread_local -> shuttle (scheduling points)", "parking::Parker -> token parker on simulated Mutex+Condvar", "async-event's mutex/atomics -> shuttle via loom facade", "worker search timer -> round counter knob", "mailbox identity (heap address) -> simulator-chosen ids", "Clock -> scripted recording clock"],
        },
        "assumptions": [
            "E1 explores sequentially consistent executions only (shuttle treats every atomic as SeqCst)",
            "dependencies without scheduling points (st3, diatomic-waker, multishot, slab, recycle-box) execute atomically between two NeXosim scheduling points",
            "sampled schedules and workloads: a clean batch is evidence, not proof"
        ],
    });
    let path = dir.join(format!("{}.json", prop.id));
    std::fs::write(&path, serde_json::to_string_pretty(&ev).unwrap()).unwrap();
}

#[cfg(feature = "e1")]
/// Runs `n` generated cases of several profiles twice each and compares the
/// decision and history hashes. Any divergence is a harness error.
pub fn selftest_determinism(seed: u64, n: u64) -> i32 {
    let mut bad = 0;
    let mut total = 0;
    for prop in props::PROPS.iter() {
        for ci in 0..n {
            let case_seed = crate::rng::mix(crate::rng::mix(seed, crate::explore::str_hash(prop.id)), ci);
            let mut rng = crate::rng::Rng::new(case_seed);
            let base = crate::explore::gen_case(prop, &mut rng, false);
            // Fault / drop-point variants are part of what must be deterministic.
            let variants = crate::explore::gen_variants(prop, &base, false);
            let pick = [0usize, variants.len() / 3, variants.len() / 2, variants.len().saturating_sub(1)];
            let vi = pick[(ci % 4) as usize].min(variants.len().saturating_sub(1));
            let case = Arc::new(variants.into_iter().nth(vi).unwrap_or(base));
            for k in 0..2u32 {
                let spec = crate::explore::portfolio(case_seed, 1 + k + (ci as u32 % 7), 300, false);
                let a = engine::execute(&case, &spec);
                let b = engine::execute(&case, &spec);
                let (ha, hb) = (Hist::build(&a.log), Hist::build(&b.log));
                total += 1;
                let same = a.sched.decision_hash == b.sched.decision_hash
                    && a.sched.decisions.len() == b.sched.decisions.len()
                    && a.log.len() == b.log.len()
                    && ha.observable_hash() == hb.observable_hash()
                    && format!("{:?}", a.failure) == format!("{:?}", b.failure);
                if !same {
                    bad += 1;
                    if bad <= 5 {
                        eprintln!("divergence: prop={} case={} sched={:?}: steps {} vs {}, log {} vs {}", prop.id, ci, spec.kind, a.sched.decisions.len(), b.sched.decisions.len(), a.log.len(), b.log.len());
                    }
                }
                // Replaying the recorded decisions must give the same execution as well.
                let mut rs = spec.clone();
                rs.replay = Some(a.sched.decisions.clone());
                rs.kind = SchedKind::RoundRobin;
                let c = engine::execute(&case, &rs);
                if c.sched.decision_hash != a.sched.decision_hash || c.sched.replay_diverged || c.log.len() != a.log.len() {
                    bad += 1;
                    if bad <= 5 {
                        eprintln!("replay divergence: prop={} case={}", prop.id, ci);
                    }
                }
            }
        }
    }
    println!("selftest-determinism: {} execution pairs, {} divergences", total, bad);
    if bad > 0 {
        2
    } else {
        0
    }
}

#[allow(unused)]
fn _p(_: &Path) {}
