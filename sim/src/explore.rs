//! Seeded exploration loop shared by all whole-system checks.

use std::collections::{BTreeMap, HashSet};
use std::sync::atomic::{AtomicBool, AtomicU64, Ordering};
use std::sync::{Arc, Mutex};
use std::time::{Duration, Instant};

use crate::case::Case;
#[cfg(feature = "e1")]
use crate::engine;
use crate::outcome::Outcome;
use crate::hist::Hist;
use crate::oracle::Violation;
use crate::rng::{mix, Rng};
use crate::outcome::{SchedKind, SchedSpec};

/// What a property check supplies.
pub struct PropSpec {
    pub id: &'static str,
    /// Generates a case from a seeded PRNG.
    pub gen: fn(&mut Rng, thorough: bool) -> Case,
    /// Evaluates the property's oracles on one execution. `group` carries data
    /// shared between the executions of one case (differential checks).
    pub check: fn(&Case, &Outcome, &Hist, &mut Group) -> Vec<Violation>,
    /// Whether an execution exercised the property's own mechanism.
    pub nontrivial: fn(&Case, &Outcome, &Hist) -> bool,
    /// Variants of a generated case to execute (e.g. ST and several MT
    /// configurations for differential checks).
    pub variants: fn(&Case, thorough: bool) -> Vec<Case>,
    pub schedules_quick: u32,
    pub schedules_thorough: u32,
    pub cases_quick: u64,
    pub cases_thorough: u64,
    pub rule: &'static str,
}

/// Generates a case of `prop` and applies the property-independent swarm choices: in a quarter
/// of the whole-system cases one or two models get synchronous inputs (`fn` instead of
/// `async fn`; their handlers keep the operations that never suspend).
pub fn gen_case(prop: &PropSpec, rng: &mut Rng, thorough: bool) -> Case {
    let mut case = (prop.gen)(rng, thorough);
    if case.comp.is_none() && !case.nodes.is_empty() && rng.pct(25) {
        for _ in 0..(1 + rng.below(2)) {
            let i = rng.usize(case.nodes.len());
            case.nodes[i].make_sync();
        }
    }
    // ... and in one case out of twenty a handler builds, runs and drops a second simulation
    // (see `Op::Nested`): the outer simulation must not notice.
    // (Not in benches with a late sub-model mailbox: the trace identifies mailboxes by creation
    // order, and if that late mailbox is never created - its parent is not built - the nested
    // simulation's first mailbox would take its place in the numbering.)
    if case.comp.is_none() && !case.nodes.is_empty() && !case.nodes.iter().any(|n| n.late_mailbox) && rng.pct(5) {
        let i = rng.usize(case.nodes.len());
        if !case.nodes[i].sync_inputs && !case.nodes[i].on.is_empty() {
            let k = rng.usize(case.nodes[i].on.len());
            let pos = rng.usize(case.nodes[i].on[k].len() + 1);
            case.nodes[i].on[k].insert(pos, crate::case::Op::Nested { models: rng.range(1, 9) as u8 });
        }
    }
    case
}

/// Variants of a case; a variant that added suspending operations to the handlers of a node with
/// synchronous inputs turns that node back into one with `async` inputs.
pub fn gen_variants(prop: &PropSpec, base: &Case, thorough: bool) -> Vec<Case> {
    let mut v = (prop.variants)(base, thorough);
    for c in v.iter_mut() {
        for n in c.nodes.iter_mut() {
            if n.sync_inputs && n.on.iter().flatten().any(|o| !o.is_sync()) {
                n.sync_inputs = false;
            }
        }
    }
    v
}

/// Data shared by the executions of one generated case.
#[derive(Default)]
pub struct Group {
    pub reference: Option<String>,
    pub reference_desc: String,
    pub aux: BTreeMap<String, String>,
}

pub fn single_variant(c: &Case, _t: bool) -> Vec<Case> {
    vec![c.clone()]
}

#[derive(Clone, Debug, serde::Serialize, serde::Deserialize)]
pub struct Found {
    pub case: Case,
    pub spec: SchedSpec,
    pub violation: Violation,
    pub case_seed: u64,
    pub decisions: Vec<u16>,
}

#[derive(Default, Clone, Debug, serde::Serialize, serde::Deserialize)]
pub struct Stats {
    pub cases: u64,
    pub executions: u64,
    #[serde(skip)]
    pub nontrivial_hashes: HashSet<u64>,
    #[serde(skip)]
    pub interleavings: HashSet<u64>,
    #[serde(skip)]
    pub histories: HashSet<u64>,
    /// Distinct counts (the hash sets of disjoint partitions are disjoint).
    pub n_nontrivial: u64,
    pub n_interleavings: u64,
    pub n_histories: u64,
    pub steps: u64,
    pub choice_points: u64,
    pub context_switches: u64,
    pub sim_time_ns: u128,
    pub probes: Vec<u64>,
    pub sched_mix: BTreeMap<String, u64>,
    pub threads_hist: BTreeMap<u8, u64>,
    pub faults: BTreeMap<String, u64>,
    pub results: BTreeMap<String, u64>,
    pub samples: Vec<serde_json::Value>,
    pub truncated: bool,
    /// Case index the hash sets currently belong to: the hashes are salted with the case index, so
    /// equal hashes only occur within one case and the sets can be flushed at every new case.
    #[serde(skip)]
    pub cur_ci: Option<u64>,
}

impl Stats {
    pub fn seal(&mut self) {
        self.n_nontrivial += self.nontrivial_hashes.len() as u64;
        self.n_interleavings += self.interleavings.len() as u64;
        self.n_histories += self.histories.len() as u64;
        self.nontrivial_hashes.clear();
        self.interleavings.clear();
        self.histories.clear();
    }

    pub fn merge(&mut self, o: Stats) {
        self.n_nontrivial += o.n_nontrivial;
        self.n_interleavings += o.n_interleavings;
        self.n_histories += o.n_histories;
        self.cases += o.cases;
        self.executions += o.executions;
        self.nontrivial_hashes.extend(o.nontrivial_hashes);
        self.interleavings.extend(o.interleavings);
        self.histories.extend(o.histories);
        self.steps += o.steps;
        self.choice_points += o.choice_points;
        self.context_switches += o.context_switches;
        self.sim_time_ns += o.sim_time_ns;
        if self.probes.len() < o.probes.len() {
            self.probes.resize(o.probes.len(), 0);
        }
        for i in 0..o.probes.len() {
            self.probes[i] += o.probes[i];
        }
        for (k, v) in o.sched_mix {
            *self.sched_mix.entry(k).or_insert(0) += v;
        }
        for (k, v) in o.threads_hist {
            *self.threads_hist.entry(k).or_insert(0) += v;
        }
        for (k, v) in o.faults {
            *self.faults.entry(k).or_insert(0) += v;
        }
        for (k, v) in o.results {
            *self.results.entry(k).or_insert(0) += v;
        }
        if self.samples.len() < 3 {
            self.samples.extend(o.samples.into_iter().take(1));
        }
        self.truncated |= o.truncated;
    }
}

/// Scheduler portfolio: schedule `k` of a case.
pub fn portfolio(case_seed: u64, k: u32, pilot_steps: u32, st: bool) -> SchedSpec {
    let seed = mix(case_seed, 0x5C4ED + k as u64);
    let mut r = Rng::new(seed);
    let kind = if st {
        // The single-threaded executor has one simulated thread (plus helper
        // threads in fault runs): the strategy hardly matters.
        SchedKind::Random { sticky: 0 }
    } else if k == 0 {
        SchedKind::Random { sticky: 0 }
    } else {
        match r.below(13) {
            0 => SchedKind::Random { sticky: 0 },
            1 => SchedKind::Random { sticky: 50 },
            2 => SchedKind::Random { sticky: 90 },
            3 => SchedKind::RoundRobin,
            10 => SchedKind::Stall { per_mille: 5, max_len: 300 },
            12 => SchedKind::Stall { per_mille: 2, max_len: 4000 },
            11 => SchedKind::Stall { per_mille: 25, max_len: 4000 },
            n => SchedKind::Pct { depth: 1 + ((n - 4) % 5) as u8 + (r.below(2) as u8), est_steps: pilot_steps.max(8) },
        }
    };
    SchedSpec { kind, seed, replay: None, switches: None }
}

pub fn sched_name(k: &SchedKind) -> String {
    match k {
        SchedKind::Random { sticky } => format!("random(sticky={})", sticky),
        SchedKind::Pct { depth, .. } => format!("pct(depth={})", depth),
        SchedKind::RoundRobin => "round_robin".into(),
        SchedKind::Stall { per_mille, max_len } => format!("stall({}/1000,<={})", per_mille, max_len),
    }
}

pub struct RunResult {
    pub stats: Stats,
    pub found: Vec<Found>,
    pub wall: Duration,
}

#[cfg(feature = "e1")]
/// Per-worker exploration state machine, driven by the engine's batch runner.
struct Explorer {
    prop: &'static PropSpec,
    thorough: bool,
    prop_seed: u64,
    n_cases: u64,
    n_sched: u32,
    next: Arc<AtomicU64>,
    stride: u64,
    progress: Option<std::fs::File>,
    stop_file: Option<std::path::PathBuf>,
    stop: Arc<AtomicBool>,
    found_all: Arc<Mutex<Vec<Found>>>,
    stop_on_first: bool,
    start: Instant,
    max_wall: Duration,
    st: Stats,
    // current position
    ci: u64,
    case_seed: u64,
    variants: Vec<Arc<Case>>,
    vi: usize,
    k: u32,
    n_k: u32,
    pilot: u32,
    group: Group,
    /// (rule, key) of the open known findings of this property.
    known: Vec<(String, String)>,
    known_seen: BTreeMap<(String, String), u64>,
}

#[cfg(feature = "e1")]
impl Explorer {
    /// Moves to the next generated case; false when the budget is exhausted.
    fn next_case(&mut self) -> bool {
        if self.stop.load(Ordering::Relaxed) {
            return false;
        }
        if let Some(f) = &self.stop_file {
            if f.exists() {
                return false;
            }
        }
        if self.start.elapsed() > self.max_wall {
            self.st.truncated = true;
            return false;
        }
        let ci = self.next.fetch_add(self.stride, Ordering::Relaxed);
        if ci >= self.n_cases {
            return false;
        }
        self.ci = ci;
        self.case_seed = mix(self.prop_seed, ci);
        let mut rng = Rng::new(self.case_seed);
        let base = gen_case(self.prop, &mut rng, self.thorough);
        self.variants = gen_variants(self.prop, &base, self.thorough).into_iter().map(Arc::new).collect();
        self.vi = 0;
        self.k = 0;
        self.group = Group::default();
        self.st.cases += 1;
        self.enter_variant();
        true
    }
    fn enter_variant(&mut self) {
        let case = &self.variants[self.vi];
        let stc = is_single_schedule(case);
        self.n_k = if stc { 1 } else { self.n_sched };
        self.k = 0;
        self.pilot = 64;
    }
}

/// With the single-threaded executor and no auxiliary thread there is one
/// simulated thread, hence a single schedule.
pub fn is_single_schedule(case: &Case) -> bool {
    case.cfg.threads <= 1 && case.aux.is_empty() && !case.cfg.timeout_set && case.comp.is_none()
}

#[cfg(feature = "e1")]
impl engine::WorkSource for Explorer {
    fn next(&mut self) -> Option<(Arc<Case>, SchedSpec)> {
        loop {
            if self.variants.is_empty() || self.vi >= self.variants.len() {
                if !self.next_case() {
                    return None;
                }
            }
            if self.k >= self.n_k {
                self.vi += 1;
                if self.vi >= self.variants.len() {
                    continue;
                }
                self.enter_variant();
            }
            let case = self.variants[self.vi].clone();
            let stc = is_single_schedule(&case);
            let spec = portfolio(mix(self.case_seed, self.vi as u64), self.k, self.pilot, stc);
            if let Some(f) = self.progress.as_mut() {
                use std::io::{Seek, SeekFrom, Write};
                let _ = f.seek(SeekFrom::Start(0));
                let _ = f.write_all(format!("{:>20} {:>6} {:>6} {:>10}\n", self.ci, self.vi, self.k, self.pilot).as_bytes());
            }
            return Some((case, spec));
        }
    }

    fn done(&mut self, case: &Arc<Case>, spec: &SchedSpec, out: Outcome) {
        if self.k == 0 {
            self.pilot = out.sched.choice_points.max(8);
        }
        let h = Hist::build(&out.log);
        let viols = (self.prop.check)(case, &out, &h, &mut self.group);
        account(&mut self.st, self.prop, case, spec, &out, &h, self.ci, self.k);
        if !viols.is_empty() {
            let mut fa = self.found_all.lock().unwrap();
            let mut fresh = false;
            for v in viols.into_iter().take(4) {
                // A violation listed as an open known finding is recorded (a few instances) but
                // does not end the exploration.
                if self.known.iter().any(|(r, k)| *r == v.rule && (k.is_empty() || *k == v.key)) {
                    let n = self.known_seen.entry((v.rule.clone(), v.key.clone())).or_insert(0);
                    *n += 1;
                    if *n > 3 {
                        continue;
                    }
                } else {
                    fresh = true;
                }
                fa.push(Found { case: (**case).clone(), spec: spec.clone(), violation: v, case_seed: self.case_seed, decisions: out.sched.decisions.clone() });
            }
            if self.stop_on_first && fresh {
                self.stop.store(true, Ordering::Relaxed);
            }
        }
        self.k += 1;
    }
}

/// Result of one partition, as exchanged between a worker process and its parent.
#[derive(Default, serde::Serialize, serde::Deserialize)]
pub struct PartResult {
    pub stats: Stats,
    pub found: Vec<Found>,
}

#[cfg(feature = "e1")]
/// Explores the case indices `part, part + parts, ...` on the calling thread.
#[allow(clippy::too_many_arguments)]
pub fn explore_part(
    prop: &'static PropSpec,
    seed: u64,
    thorough: bool,
    part: u64,
    parts: u64,
    max_wall: Duration,
    stop_on_first: bool,
    progress: Option<std::fs::File>,
    stop_file: Option<std::path::PathBuf>,
) -> PartResult {
    let n_cases = if thorough { prop.cases_thorough } else { prop.cases_quick };
    let n_sched = if thorough { prop.schedules_thorough } else { prop.schedules_quick };
    let found_all: Arc<Mutex<Vec<Found>>> = Arc::new(Mutex::new(Vec::new()));
    let mut ex = Explorer {
        prop,
        thorough,
        prop_seed: mix(seed, str_hash(prop.id)),
        n_cases,
        n_sched,
        next: Arc::new(AtomicU64::new(part)),
        stride: parts,
        progress,
        stop_file,
        stop: Arc::new(AtomicBool::new(false)),
        found_all: found_all.clone(),
        stop_on_first,
        start: Instant::now(),
        max_wall,
        st: Stats::default(),
        ci: 0,
        case_seed: 0,
        variants: Vec::new(),
        vi: 0,
        k: 0,
        n_k: 0,
        pilot: 64,
        group: Group::default(),
        known: crate::report::load_known().findings.into_iter().filter(|f| f.status == "open" && f.property == prop.id).map(|f| (f.rule, f.key)).collect(),
        known_seen: BTreeMap::new(),
    };
    engine::run_batch(&mut ex, engine::default_body(), engine::MAX_STEPS);
    let mut stats = ex.st;
    stats.seal();
    let found = std::mem::take(&mut *found_all.lock().unwrap());
    PartResult { stats, found }
}

/// Regenerates the (case, schedule) a worker was executing, from its progress record.
pub fn regenerate(prop: &'static PropSpec, seed: u64, thorough: bool, ci: u64, vi: usize, k: u32, pilot: u32) -> Option<(Case, SchedSpec, u64)> {
    let case_seed = mix(mix(seed, str_hash(prop.id)), ci);
    let mut rng = Rng::new(case_seed);
    let base = gen_case(prop, &mut rng, thorough);
    let variants = gen_variants(prop, &base, thorough);
    let case = variants.into_iter().nth(vi)?;
    let stc = is_single_schedule(&case);
    let spec = portfolio(mix(case_seed, vi as u64), k, pilot, stc);
    Some((case, spec, case_seed))
}

#[cfg(feature = "e1")]
/// Explores the property's budget on `workers` single-threaded worker
/// processes (process isolation: a defect that loops without reaching a
/// scheduling point is killed by the watchdog and reported with the case it
/// was executing). The set of executions depends only on `seed`.
pub fn explore(prop: &'static PropSpec, seed: u64, thorough: bool, workers: usize, max_wall: Duration, stop_on_first: bool) -> RunResult {
    let start = Instant::now();
    let run_dir = crate::report::verif_dir().join("target").join("run").join(format!("{}-{}", prop.id, std::process::id()));
    let _ = std::fs::remove_dir_all(&run_dir);
    std::fs::create_dir_all(&run_dir).expect("create run dir");
    let exe = std::env::current_exe().expect("current exe");
    let stop_file = run_dir.join("stop");
    let mut children = Vec::new();
    for w in 0..workers {
        let child = std::process::Command::new(&exe)
            .arg("worker")
            .arg(prop.id)
            .arg(if thorough { "thorough" } else { "quick" })
            .arg(w.to_string())
            .arg(workers.to_string())
            .arg(&run_dir)
            .env("VERIF_SEED", seed.to_string())
            .env("NXV_MAX_WALL", max_wall.as_secs().to_string())
            .env("NXV_STOP_ON_FIRST", if stop_on_first { "1" } else { "0" })
            .stdout(std::process::Stdio::null())
            .stderr(std::process::Stdio::inherit())
            .spawn()
            .expect("spawn worker");
        children.push((w, child, false));
    }
    let known: Vec<(String, String)> = crate::report::load_known().findings.into_iter().filter(|f| f.status == "open" && f.property == prop.id).map(|f| (f.rule, f.key)).collect();
    let grace = Duration::from_secs(45);
    let mut total = Stats::default();
    let mut found: Vec<Found> = Vec::new();
    let mut remaining = children.len();
    while remaining > 0 {
        std::thread::sleep(Duration::from_millis(20));
        let overdue = start.elapsed() > max_wall + grace;
        for (w, child, done) in children.iter_mut() {
            if *done {
                continue;
            }
            let status = match child.try_wait() {
                Ok(Some(st)) => Some(st),
                Ok(None) => {
                    if overdue {
                        let _ = child.kill();
                        let _ = child.wait();
                        None
                    } else {
                        continue;
                    }
                }
                Err(_) => None,
            };
            *done = true;
            remaining -= 1;
            let part_file = run_dir.join(format!("part-{}.json", w));
            let parsed: Option<PartResult> = std::fs::read_to_string(&part_file).ok().and_then(|s| serde_json::from_str(&s).ok());
            match (status.map(|s| s.success()).unwrap_or(false), parsed) {
                (true, Some(pr)) => {
                    let fresh = pr.found.iter().any(|f| !known.iter().any(|(r, k)| *r == f.violation.rule && (k.is_empty() || *k == f.violation.key)));
                    if fresh && stop_on_first {
                        let _ = std::fs::write(&stop_file, b"stop");
                    }
                    total.merge(pr.stats);
                    found.extend(pr.found);
                }
                _ => {
                    // The worker died (killed by the watchdog, by the memory limit, or it
                    // aborted): report the execution it was running.
                    let prog = std::fs::read_to_string(run_dir.join(format!("progress-{}", w))).unwrap_or_default();
                    let nums: Vec<u64> = prog.split_whitespace().filter_map(|x| x.parse().ok()).collect();
                    let why = match status {
                        None => "killed by the watchdog (no return within the wall-clock cap)".to_string(),
                        Some(st) => format!("worker process died: {:?}", st),
                    };
                    if nums.len() == 4 {
                        if let Some((case, spec, case_seed)) = regenerate(prop, seed, thorough, nums[0], nums[1] as usize, nums[2] as u32, nums[3] as u32) {
                            let what = case.script.iter().map(|c| format!("{:?}", c)).collect::<Vec<_>>().join("; ");
                            found.push(Found {
                                case,
                                spec,
                                violation: crate::oracle::Violation::keyed("no_return", "process_killed", format!("{} while executing case index {} variant {} schedule {}; script: {}", why, nums[0], nums[1], nums[2], what)),
                                case_seed,
                                decisions: vec![],
                            });
                            if stop_on_first {
                                let _ = std::fs::write(&stop_file, b"stop");
                            }
                        }
                    } else {
                        eprintln!("harness error: worker {} failed without a progress record ({})", w, why);
                        total.truncated = true;
                    }
                }
            }
        }
    }
    let _ = std::fs::remove_dir_all(&run_dir);
    RunResult { stats: total, found, wall: start.elapsed() }
}

pub fn str_hash(s: &str) -> u64 {
    let mut h = crate::rng::Hasher64::new();
    h.add_str(s);
    h.finish()
}

#[allow(clippy::too_many_arguments)]
fn account(st: &mut Stats, prop: &PropSpec, case: &Case, spec: &SchedSpec, out: &Outcome, h: &Hist, ci: u64, k: u32) {
    if st.cur_ci != Some(ci) {
        st.seal();
        st.cur_ci = Some(ci);
    }
    st.executions += 1;
    st.steps += out.sched.decisions.len() as u64;
    st.choice_points += out.sched.choice_points as u64;
    st.context_switches += out.sched.context_switches as u64;
    st.interleavings.insert(mix(out.sched.decision_hash, str_hash(&case.profile) ^ ci));
    let oh = h.observable_hash();
    st.histories.insert(mix(oh, ci));
    if (prop.nontrivial)(case, out, h) {
        st.nontrivial_hashes.insert(mix(mix(out.sched.decision_hash, oh), ci));
    }
    if let Some(info) = &out.info {
        if st.probes.len() < info.probes.len() {
            st.probes.resize(info.probes.len(), 0);
        }
        for i in 0..info.probes.len() {
            st.probes[i] += info.probes[i];
        }
    }
    *st.sched_mix.entry(sched_name(&spec.kind)).or_insert(0) += 1;
    *st.threads_hist.entry(case.cfg.threads).or_insert(0) += 1;
    // Simulated time covered.
    let t0 = crate::node::tt_ns(case.cfg.t0);
    if let Some(t) = h.cmds.iter().filter_map(|c| c.t_after).max() {
        let d = (t.0 - t0.0) as i128 * 1_000_000_000 + (t.1 as i128 - t0.1 as i128);
        if d > 0 {
            st.sim_time_ns += d as u128;
        }
    }
    for c in &h.cmds {
        if let Some(r) = &c.res {
            *st.results.entry(r.class().to_string()).or_insert(0) += 1;
        }
    }
    // Fault kinds that actually fired.
    if !h.panics.is_empty() {
        *st.faults.entry("P_model_panic".into()).or_insert(0) += 1;
    }
    if let Some(info) = &out.info {
        if info.probes[nexosim::verif::Probe::TimeoutInjected as usize] > 0 {
            *st.faults.entry("T_step_timeout".into()).or_insert(0) += 1;
        }
        if info.probes[nexosim::verif::Probe::PushFull as usize] > 0 {
            *st.faults.entry("S_mailbox_full".into()).or_insert(0) += 1;
        }
        if info.probes[nexosim::verif::Probe::SearchExpired as usize] > 0 {
            *st.faults.entry("E_search_timer_expired".into()).or_insert(0) += 1;
        }
    }
    if h.syncs.iter().any(|s| s.2.is_some()) {
        *st.faults.entry("K_clock_lag".into()).or_insert(0) += 1;
    }
    if h.cmds.iter().any(|c| matches!(c.res, Some(crate::ctx::Res::Deadlock(_)))) {
        *st.faults.entry("S_stall_deadlock".into()).or_insert(0) += 1;
    }
    if h.cmds.iter().any(|c| matches!(c.res, Some(crate::ctx::Res::MessageLoss(_)))) {
        *st.faults.entry("O_orphan_message_loss".into()).or_insert(0) += 1;
    }
    if h.cmds.iter().any(|c| matches!(c.res, Some(crate::ctx::Res::NoRecipient(_)))) {
        *st.faults.entry("R_no_recipient".into()).or_insert(0) += 1;
    }
    if !h.cancels.is_empty() {
        *st.faults.entry("C_cancellation".into()).or_insert(0) += 1;
    }
    if h.scheds.iter().any(|r| matches!(r.actor, crate::ctx::Actor::Aux(_))) {
        *st.faults.entry("X_concurrent_scheduler_thread".into()).or_insert(0) += 1;
    }
    if h.scheds.iter().any(|r| matches!(r.res, Some(crate::ctx::Res::InvalidTime) | Some(crate::ctx::Res::NullPeriod))) {
        *st.faults.entry("I_invalid_request".into()).or_insert(0) += 1;
    }
    if case.cfg.chan_mask != 0 {
        *st.faults.entry("N_mailbox_identity_permuted".into()).or_insert(0) += 1;
    }
    if h.drop_begin.is_some() && h.cmds.iter().any(|c| c.text.starts_with("DropSim")) {
        *st.faults.entry("D_drop_mid_script".into()).or_insert(0) += 1;
    }
    if st.samples.is_empty() && k == 0 {
        st.samples.push(serde_json::json!({
            "case_index": ci,
            "case": case,
            "schedule": {"kind": sched_name(&spec.kind), "seed": spec.seed},
            "scheduling_points": out.sched.decisions.len(),
            "context_switches": out.sched.context_switches,
            "results": h.cmds.iter().map(|c| format!("{} -> {}", c.text, c.res.as_ref().map(|r| r.class()).unwrap_or("?"))).collect::<Vec<_>>(),
            "handlers": h.handlers.len(),
        }));
    }
}
