//! The harness-owned scheduler: decides which simulated thread runs at every
//! scheduling point, records every decision and can replay a recorded
//! decision sequence exactly.

use shuttle::scheduler::{Task, TaskId};

use crate::rng::{Hasher64, Rng};

pub use crate::outcome::{SchedKind, SchedReport, SchedSpec};

pub struct RecSched {
    spec: SchedSpec,
    rng: Rng,
    data_rng: Rng,
    pub report: SchedReport,
    hasher: Hasher64,
    // PCT state
    prio: Vec<u32>,
    next_low: u32,
    change_points: Vec<u32>,
    // RR state
    last: usize,
    // stall state: (thread, choice index until which it is set aside)
    stalled: Vec<(usize, u32)>,
    // switch-replay state
    sw_idx: usize,
    record: bool,
}

impl RecSched {
    pub fn new(spec: SchedSpec, record: bool) -> Self {
        let mut rng = Rng::new(spec.seed);
        let data_rng = Rng::new(crate::rng::mix(spec.seed, 0xDA7A));
        let mut change_points = Vec::new();
        if let SchedKind::Pct { depth, est_steps } = spec.kind {
            let est = est_steps.max(2);
            for _ in 1..depth.max(1) {
                change_points.push(1 + rng.below(est as u64) as u32);
            }
        }
        Self {
            spec,
            rng,
            data_rng,
            report: SchedReport::default(),
            hasher: Hasher64::new(),
            prio: Vec::new(),
            next_low: 1 << 20,
            change_points,
            last: 0,
            stalled: Vec::new(),
            sw_idx: 0,
            record,
        }
    }

    fn ensure_prio(&mut self, max_id: usize) {
        while self.prio.len() <= max_id {
            // Random priority in the "high" band; ties broken by task id.
            let p = self.rng.below(1 << 16) as u32;
            self.prio.push(p);
        }
    }

    fn strategy_choice(&mut self, runnable: &[&Task], current: Option<TaskId>, yielding: bool, choice_idx: u32, just_unlocked: bool) -> usize {
        let cur: Option<usize> = current.map(usize::from);
        let ids: Vec<usize> = runnable.iter().map(|t| usize::from(t.id())).collect();
        if ids.len() == 1 {
            return ids[0];
        }
        match self.spec.kind {
            SchedKind::Random { sticky } => {
                if !yielding {
                    if let Some(c) = cur {
                        if ids.contains(&c) && self.rng.below(100) < sticky as u64 {
                            return c;
                        }
                    }
                    ids[self.rng.usize(ids.len())]
                } else {
                    // De-prioritise the yielding task.
                    let others: Vec<usize> = ids.iter().copied().filter(|i| Some(*i) != cur).collect();
                    if others.is_empty() {
                        ids[0]
                    } else {
                        others[self.rng.usize(others.len())]
                    }
                }
            }
            SchedKind::Pct { .. } => {
                let max_id = *ids.iter().max().unwrap();
                self.ensure_prio(max_id);
                if let Some(c) = cur {
                    if yielding || self.change_points.contains(&choice_idx) {
                        self.ensure_prio(c);
                        self.prio[c] = self.next_low;
                        self.next_low += 1;
                    }
                }
                *ids.iter().min_by_key(|i| (self.prio[**i], **i)).unwrap()
            }
            SchedKind::Stall { per_mille, max_len } => {
                self.stalled.retain(|(_, until)| *until > choice_idx);
                // Right after a critical section the chance of a long preemption is 15 %: the
                // classic window of a check made under a lock and acted upon outside of it.
                let per_mille = if just_unlocked { per_mille.max(150) } else { per_mille };
                if let Some(c) = cur {
                    if ids.contains(&c) && !self.stalled.iter().any(|(t, _)| *t == c) && self.rng.below(1000) < per_mille as u64 {
                        let len = 1 + self.rng.below(max_len.max(1) as u64) as u32;
                        self.stalled.push((c, choice_idx + len));
                    }
                }
                let free: Vec<usize> = ids.iter().copied().filter(|i| !self.stalled.iter().any(|(t, _)| t == i) && !(yielding && Some(*i) == cur)).collect();
                if free.is_empty() {
                    // Everything runnable is set aside or yielding. A yielding (spinning) thread
                    // waits for someone else: release the stalled thread that is due first rather
                    // than letting the spinner burn the stall away.
                    match ids.iter().copied().filter(|i| self.stalled.iter().any(|(t, _)| t == i)).min_by_key(|i| self.stalled.iter().find(|(t, _)| t == i).map(|(_, u)| *u).unwrap_or(0)) {
                        Some(pick) => {
                            self.stalled.retain(|(t, _)| *t != pick);
                            pick
                        }
                        None => ids[0],
                    }
                } else {
                    free[self.rng.usize(free.len())]
                }
            }
            SchedKind::RoundRobin => {
                let start = if yielding { cur.map(|c| c + 1).unwrap_or(0) } else { cur.unwrap_or(self.last) };
                let pick = ids.iter().copied().find(|i| *i >= start).unwrap_or(ids[0]);
                self.last = pick;
                pick
            }
        }
    }
}

impl RecSched {
    pub fn next_task(&mut self, runnable: &[&Task], current: Option<TaskId>, is_yielding: bool) -> Option<TaskId> {
        let idx = self.report.decisions.len();
        let choice_idx = self.report.choice_points;
        // always consumed, whatever the strategy, so that it describes the last slice only
        let just_unlocked = shuttle_engine::nxv_hint::take_just_unlocked();

        let is_runnable = |id: usize| runnable.iter().any(|t| usize::from(t.id()) == id);
        let cur: Option<usize> = current.map(usize::from);

        let mut diverged = false;
        let chosen: usize = if let Some(list) = self.spec.replay.as_ref().filter(|l| idx < l.len()) {
            let want = list[idx] as usize;
            if is_runnable(want) {
                want
            } else {
                diverged = true;
                usize::from(runnable[0].id())
            }
        } else if let Some(sw) = self.spec.switches.as_ref() {
            // Context-switch list replay.
            while self.sw_idx < sw.len() && (sw[self.sw_idx].0 as usize) < idx {
                self.sw_idx += 1;
            }
            let forced = if self.sw_idx < sw.len() && sw[self.sw_idx].0 as usize == idx {
                let w = sw[self.sw_idx].1 as usize;
                self.sw_idx += 1;
                Some(w)
            } else {
                None
            };
            match forced {
                Some(w) if is_runnable(w) => w,
                _ => match cur {
                    Some(c) if is_runnable(c) && !is_yielding => c,
                    _ => {
                        let others: Vec<usize> = runnable.iter().map(|t| usize::from(t.id())).filter(|i| Some(*i) != cur).collect();
                        if others.is_empty() { usize::from(runnable[0].id()) } else { *others.iter().min().unwrap() }
                    }
                },
            }
        } else {
            self.strategy_choice(runnable, current, is_yielding, choice_idx, just_unlocked)
        };

        let rep = &mut self.report;
        if diverged {
            rep.replay_diverged = true;
        }
        if runnable.len() > 1 {
            rep.choice_points += 1;
        }
        if cur.is_some() && cur != Some(chosen) {
            rep.context_switches += 1;
        }
        let max_id = runnable.iter().map(|t| usize::from(t.id())).max().unwrap_or(0) as u16;
        if max_id + 1 > rep.max_tasks {
            rep.max_tasks = max_id + 1;
        }
        if self.record {
            rep.decisions.push(chosen as u16);
        } else {
            // keep `len()` meaningful as decision index without storing
            rep.decisions.push(0);
        }
        self.hasher.add(chosen as u64 + 1);
        rep.decision_hash = self.hasher.0;
        Some(TaskId::from(chosen))
    }

    pub fn next_u64(&mut self) -> u64 {
        self.report.randoms += 1;
        self.data_rng.next_u64()
    }
}

/// Reduces a full decision list to its context switches (see `SchedSpec::switches`).
pub fn decisions_to_switches(decisions: &[u16]) -> Vec<(u32, u16)> {
    let mut out = Vec::new();
    let mut cur: Option<u16> = None;
    for (i, d) in decisions.iter().enumerate() {
        if cur != Some(*d) {
            out.push((i as u32, *d));
            cur = Some(*d);
        }
    }
    out
}
