mod case;
mod comp;
mod ctx;
mod driver;
#[cfg(feature = "e1")]
mod engine;
#[cfg(not(feature = "e1"))]
mod e2;
mod explore;
mod gen;
mod hist;
mod minimise;
mod node;
mod oracle;
mod outcome;
mod props;
mod report;
mod rng;
mod rt;
#[cfg(feature = "e1")]
mod sched;

#[cfg(feature = "e1")]
use std::time::Duration;

#[cfg(feature = "e1")]
fn usage() -> ! {
    eprintln!("usage: nxv check <ID> <quick|thorough> | nxv replay <file> | nxv selftest-determinism [n]");
    std::process::exit(2);
}

#[cfg(not(feature = "e1"))]
fn main() {
    e2::main();
}

#[cfg(feature = "e1")]
fn main() {
    let args: Vec<String> = std::env::args().collect();
    if args.len() < 2 {
        usage();
    }
    let seed: u64 = std::env::var("VERIF_SEED").ok().and_then(|s| s.parse().ok()).unwrap_or(20260922);
    let workers: usize = std::env::var("NXV_WORKERS").ok().and_then(|s| s.parse().ok()).unwrap_or_else(|| std::thread::available_parallelism().map(|n| n.get()).unwrap_or(4));
    engine::init_process();
    match args[1].as_str() {
        "check" => {
            if args.len() < 4 {
                usage();
            }
            let id = args[2].as_str();
            let thorough = args[3] == "thorough";
            let Some(prop) = props::find(id) else {
                eprintln!("unknown property {}", id);
                std::process::exit(2);
            };
            let max_wall = Duration::from_secs(std::env::var("NXV_MAX_WALL").ok().and_then(|s| s.parse().ok()).unwrap_or(if thorough { 1500 } else { 240 }));
            println!("VERIF_SEED={} property={} tier={} workers={}", seed, id, args[3], workers);
            let res = explore::explore(prop, seed, thorough, workers, max_wall, true);
            let code = report::finish(prop, seed, thorough, &res);
            std::process::exit(code);
        }
        "worker" => {
            // nxv worker <ID> <tier> <part> <parts> <run_dir>
            if args.len() < 7 {
                usage();
            }
            let Some(prop) = props::find(&args[2]) else { std::process::exit(2) };
            let thorough = args[3] == "thorough";
            let part: u64 = args[4].parse().unwrap_or(0);
            let parts: u64 = args[5].parse().unwrap_or(1);
            let run_dir = std::path::PathBuf::from(&args[6]);
            limit_memory();
            let max_wall = Duration::from_secs(std::env::var("NXV_MAX_WALL").ok().and_then(|s| s.parse().ok()).unwrap_or(240));
            let stop_on_first = std::env::var("NXV_STOP_ON_FIRST").map(|v| v == "1").unwrap_or(true);
            let progress = std::fs::File::create(run_dir.join(format!("progress-{}", part))).ok();
            let res = explore::explore_part(prop, seed, thorough, part, parts, max_wall, stop_on_first, progress, Some(run_dir.join("stop")));
            let tmp = run_dir.join(format!("part-{}.json.tmp", part));
            std::fs::write(&tmp, serde_json::to_string(&res).unwrap()).unwrap();
            std::fs::rename(&tmp, run_dir.join(format!("part-{}.json", part))).unwrap();
            std::process::exit(0);
        }
        "replay" => {
            if args.len() < 3 {
                usage();
            }
            std::process::exit(report::replay(&args[2]));
        }
        "replay-inner" => {
            if args.len() < 3 {
                usage();
            }
            limit_memory();
            std::process::exit(report::replay_inner(&args[2]));
        }
        "minimise" => {
            if args.len() < 3 {
                usage();
            }
            std::process::exit(report::minimise_file(&args[2]));
        }
        "selftest-determinism" => {
            let n: u64 = args.get(2).and_then(|s| s.parse().ok()).unwrap_or(200);
            std::process::exit(report::selftest_determinism(seed, n));
        }
        _ => usage(),
    }
}

#[cfg(feature = "e1")]
/// Address-space limit for worker processes: a defect that allocates without
/// bound is stopped by the allocator instead of exhausting the machine.
fn limit_memory() {
    let gib: u64 = std::env::var("NXV_MEM_GIB").ok().and_then(|s| s.parse().ok()).unwrap_or(3);
    let lim = libc::rlimit { rlim_cur: gib << 30, rlim_max: gib << 30 };
    unsafe {
        libc::setrlimit(libc::RLIMIT_AS, &lim);
    }
}
