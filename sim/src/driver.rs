//! Runs the driver script of a case against the real `Simulation` and records
//! everything observable in the execution context.

use std::panic::{catch_unwind, AssertUnwindSafe};
use std::sync::atomic::Ordering;
use std::sync::{Arc, Mutex};
use std::time::Duration;

use nexosim::simulation::{Action, ActionKey, ExecutionError, Scheduler, Simulation};
use nexosim::time::MonotonicTime;
use nexosim::verif;

use crate::case::*;
use crate::ctx::{Actor, Ev, ExecCtx, Res, TraceEv};
use crate::node::{self, with_ev, with_q, child_salt, mode_log, mt, mtt, sched_err, tt, when_parts, Bench, Msg, Node, Sink, Source};
use crate::rt;

pub const DRIVER_TTL: u8 = 3;

pub fn payload_text(p: &(dyn std::any::Any + Send)) -> String {
    if let Some(s) = p.downcast_ref::<&str>() {
        format!("str:{}", s)
    } else if let Some(s) = p.downcast_ref::<String>() {
        format!("string:{}", s)
    } else if let Some(v) = p.downcast_ref::<u32>() {
        format!("u32:{}", v)
    } else {
        "other".to_string()
    }
}

pub fn exec_err(e: ExecutionError) -> Res {
    match e {
        ExecutionError::Terminated => Res::Terminated,
        ExecutionError::Deadlock(list) => {
            let mut v: Vec<(String, usize)> = list.into_iter().map(|d| (d.model, d.mailbox_size)).collect();
            v.sort();
            Res::Deadlock(v)
        }
        ExecutionError::MessageLoss(n) => Res::MessageLoss(n),
        ExecutionError::NoRecipient { model } => Res::NoRecipient(model),
        ExecutionError::Panic { model, payload } => Res::Panic { model, payload: payload_text(&*payload) },
        ExecutionError::Timeout => Res::Timeout,
        ExecutionError::OutOfSync(lag) => Res::OutOfSync(lag.as_nanos() as u64),
        ExecutionError::BadQuery => Res::BadQuery,
        ExecutionError::InvalidDeadline(_) => Res::InvalidDeadline,
    }
}

fn guard<R>(f: impl FnOnce() -> Result<R, ExecutionError>) -> Result<R, Res> {
    match catch_unwind(AssertUnwindSafe(f)) {
        Ok(Ok(r)) => Ok(r),
        Ok(Err(e)) => Err(exec_err(e)),
        Err(p) => Err(Res::ApiPanic(payload_text(&*p))),
    }
}

/// Key slots shared between the driver and auxiliary threads. The std mutex is
/// never held across a library call.
#[derive(Default)]
pub struct SharedKeys {
    slots: Mutex<Vec<Option<(ActionKey, u32)>>>,
}

impl SharedKeys {
    fn put(&self, slot: u8, key: ActionKey, sid: u32) {
        let mut s = self.slots.lock().unwrap();
        let i = slot as usize;
        if s.len() <= i {
            s.resize_with(i + 1, || None);
        }
        let old = s[i].replace((key, sid));
        drop(s);
        drop(old);
    }
    fn cancel(&self, ctx: &ExecCtx, actor: Actor, slot: u8, how: u8) {
        let taken = {
            let mut s = self.slots.lock().unwrap();
            s.get_mut(slot as usize).and_then(|x| x.take())
        };
        let Some((key, sid)) = taken else { return };
        ctx.log(Ev::CancelCall { actor, sid, how });
        let mut back = None;
        match how {
            0 => key.cancel(),
            1 => {
                let c = key.clone();
                c.cancel();
                back = Some((key, sid));
            }
            2 => {
                let auto = key.into_auto();
                drop(auto);
            }
            _ => {
                // A clone stays alive (and goes back into the slot) while the auto key is dropped.
                let c = key.clone();
                let auto = key.into_auto();
                drop(auto);
                back = Some((c, sid));
            }
        }
        ctx.log(Ev::CancelRet { actor, sid });
        if let Some(b) = back {
            let mut s = self.slots.lock().unwrap();
            if s[slot as usize].is_none() {
                s[slot as usize] = Some(b);
            }
        }
    }
    fn drain(&self) -> Vec<Option<(ActionKey, u32)>> {
        std::mem::take(&mut *self.slots.lock().unwrap())
    }
}

#[allow(clippy::too_many_arguments)]
fn do_sched(
    ctx: &Arc<ExecCtx>,
    case: &Case,
    actor: Actor,
    scheduler: &Scheduler,
    addrs: &[nexosim::simulation::Address<Node>],
    sources: Option<&mut [Source]>,
    keys: &SharedKeys,
    salt_seed: u64,
    target: u16,
    kind: u8,
    when: When,
    mode: Mode,
    via: Via,
) {
    let id = ctx.fresh_msg();
    let sid = ctx.fresh_sid();
    let mut m = Msg::new(ctx, id, kind, DRIVER_TTL, child_salt(0x5C4D, salt_seed as u16, sid as usize));
    m.sched = Some(sid);
    let now = scheduler.time();
    let (rel, abs) = when_parts(when, case.cfg.t0, now);
    ctx.log(Ev::SchedCall {
        actor,
        sid,
        target,
        kind,
        mode: mode_log(&mode),
        rel,
        abs,
        via_action: matches!(via, Via::Action(_)),
        salt: m.salt,
        seq_before: 0,
    });
    let addr = &addrs[target as usize];
    let res: Result<Option<ActionKey>, Res> = match via {
        Via::Direct => {
            let r = with_ev!(case.nodes[target as usize].sync_inputs, |__f| catch_unwind(AssertUnwindSafe(|| match (mode, rel, abs) {
                (Mode::Plain, Some(d), _) => scheduler.schedule_event(Duration::from_nanos(d), __f, m, addr).map(|_| None),
                (Mode::Plain, None, Some(t)) => scheduler.schedule_event(mtt(t), __f, m, addr).map(|_| None),
                (Mode::Keyed(_), Some(d), _) => scheduler.schedule_keyed_event(Duration::from_nanos(d), __f, m, addr).map(Some),
                (Mode::Keyed(_), None, Some(t)) => scheduler.schedule_keyed_event(mtt(t), __f, m, addr).map(Some),
                (Mode::Periodic(p), Some(d), _) => scheduler
                    .schedule_periodic_event(Duration::from_nanos(d), crate::case::period_dur(p), __f, m, addr)
                    .map(|_| None),
                (Mode::Periodic(p), None, Some(t)) => scheduler
                    .schedule_periodic_event(mtt(t), crate::case::period_dur(p), __f, m, addr)
                    .map(|_| None),
                (Mode::KeyedPeriodic(_, p), Some(d), _) => scheduler
                    .schedule_keyed_periodic_event(Duration::from_nanos(d), crate::case::period_dur(p), __f, m, addr)
                    .map(Some),
                (Mode::KeyedPeriodic(_, p), None, Some(t)) => scheduler
                    .schedule_keyed_periodic_event(mtt(t), crate::case::period_dur(p), __f, m, addr)
                    .map(Some),
                _ => unreachable!(),
            })));
            match r {
                Ok(Ok(k)) => Ok(k),
                Ok(Err(e)) => Err(sched_err(e)),
                Err(p) => Err(Res::ApiPanic(payload_text(&*p))),
            }
        }
        Via::Action(src) => {
            let Some(sources) = sources else { return };
            let Some(Source::Event(es)) = sources.get_mut(src as usize) else {
                ctx.log(Ev::SchedRet { actor, sid, res: Res::Ok });
                return;
            };
            let (action, key): (Action, Option<ActionKey>) = match mode {
                Mode::Plain => (es.event(m), None),
                Mode::Keyed(_) => {
                    let (a, k) = es.keyed_event(m);
                    (a, Some(k))
                }
                Mode::Periodic(p) => (es.periodic_event(crate::case::period_dur(p), m), None),
                Mode::KeyedPeriodic(_, p) => {
                    let (a, k) = es.keyed_periodic_event(crate::case::period_dur(p), m);
                    (a, Some(k))
                }
            };
            let r = catch_unwind(AssertUnwindSafe(|| match (rel, abs) {
                (Some(d), _) => scheduler.schedule(Duration::from_nanos(d), action),
                (None, Some(t)) => scheduler.schedule(mtt(t), action),
                _ => unreachable!(),
            }));
            match r {
                Ok(Ok(())) => Ok(key),
                Ok(Err(e)) => Err(sched_err(e)),
                Err(p) => Err(Res::ApiPanic(payload_text(&*p))),
            }
        }
    };
    let r = match res {
        Ok(key) => {
            if let Some(key) = key {
                let slot = match mode {
                    Mode::Keyed(s) | Mode::KeyedPeriodic(s, _) => s,
                    _ => 0,
                };
                keys.put(slot, key, sid);
            }
            Res::Ok
        }
        Err(r) => r,
    };
    ctx.log(Ev::SchedRet { actor, sid, res: r });
}

fn read_sink(ctx: &ExecCtx, sinks: &mut [Sink], sink: u16, n: u8) {
    let mut items = Vec::new();
    if let Some(s) = sinks.get_mut(sink as usize) {
        for _ in 0..n {
            let it = match s {
                Sink::Buffer(b) => b.next(),
                Sink::Slot(b) => b.next(),
            };
            match it {
                Some(m) => items.push((m.id, m.via)),
                None => break,
            }
        }
    }
    ctx.log(Ev::SinkRead { sink, asked: n, items });
}

/// Outcome data that is not in the log.
#[derive(Default, Debug, Clone)]
pub struct RunInfo {
    pub probes: [u64; verif::PROBE_COUNT],
    pub completed: bool,
}

/// Runs the whole case: build, init, script, drop. Must be called from inside
/// the simulator (E1) or a plain thread (E2).
pub fn run_case(case: &Arc<Case>, ctx: &Arc<ExecCtx>) -> RunInfo {
    use nexosim::ports::EventSinkStream;

    // Hooks.
    let mut hooks = verif::Hooks::new();
    hooks.channel_id_mask = Some(case.cfg.chan_mask as usize);
    hooks.search_rounds = Some(case.cfg.search_rounds as u32);
    hooks.timeout_at_block = case.cfg.timeout_at_block;
    let tctx = ctx.clone();
    hooks.trace = Some(Arc::new(move |e| {
        let te = match e {
            verif::TraceEvent::Pushed(c) => TraceEv::Pushed(c),
            verif::TraceEvent::Popped(c) => TraceEv::Popped(c),
            verif::TraceEvent::TimeWritten(s, n) => TraceEv::TimeWritten(s, n),
            verif::TraceEvent::TimeoutFired => TraceEv::TimeoutFired,
        };
        if matches!(te, TraceEv::TimeWritten(s, n) if (s, n) == node::INNER_T0) {
            return; // a nested simulation's own clock
        }
        if matches!(te, TraceEv::TimeoutFired) {
            tctx.timeout_seen.store(true, Ordering::SeqCst);
        }
        tctx.log(Ev::Trace(te));
    }));
    ctx.timeout_armed.store(case.cfg.timeout_set && !case.cfg.timeout_late, Ordering::SeqCst);
    verif::install(hooks);
    ctx.wake_on_drop.store(case.cfg.wake_on_drop, Ordering::SeqCst);

    let Bench { sim_init, addrs, mut sinks, mut sources, orphans } = node::build(case, ctx);
    let t0 = mt(case.cfg.t0);

    // init
    ctx.log(Ev::CmdBegin { idx: 0, cmd: "Init".into(), time: tt(t0) });
    let init_res = guard(|| sim_init.init(t0));
    let (mut sim, scheduler): (Option<Simulation>, Option<Scheduler>) = match init_res {
        Ok((s, sch)) => {
            let nd = s.verif_next_deadline().map(tt);
            ctx.log(Ev::CmdEnd { idx: 0, res: Res::Ok, time: tt(s.time()), next_deadline: nd });
            let mut s = s;
            if case.cfg.timeout_set && case.cfg.timeout_late {
                s.set_timeout(Duration::from_secs(3600));
                ctx.timeout_armed.store(true, Ordering::SeqCst);
            }
            (Some(s), Some(sch))
        }
        Err(r) => {
            ctx.log(Ev::CmdEnd { idx: 0, res: r, time: tt(t0), next_deadline: None });
            (None, None)
        }
    };

    let keys = Arc::new(SharedKeys::default());
    let mut aux_handles: Vec<(u16, rt::JoinHandle<()>)> = Vec::new();
    let mut poisoned = false;

    for (ci, cmd) in case.script.iter().enumerate() {
        let idx = (ci + 1) as u16;
        let (Some(s), Some(sch)) = (sim.as_mut(), scheduler.as_ref()) else { break };
        if poisoned {
            break;
        }
        let time_before = tt(s.time());
        ctx.log(Ev::CmdBegin { idx, cmd: format!("{:?}", cmd), time: time_before });
        let res: Res = match cmd {
            Cmd::ProcessEvent { target, kind } => {
                let id = ctx.fresh_msg();
                let m = Msg::new(ctx, id, *kind, DRIVER_TTL, child_salt(0xD217, idx, 0));
                ctx.log(Ev::SendBegin { actor: Actor::Driver, port: 2000 + *target, msg: id, kind: *kind, query: false, salt: m.salt, ttl: m.ttl });
                let r = with_ev!(case.nodes[*target as usize].sync_inputs, |__f| guard(|| s.process_event(__f, m, &addrs[*target as usize])));
                ctx.log(Ev::SendEnd { actor: Actor::Driver, port: 2000 + *target, msg: id, replies: vec![] });
                r.err().unwrap_or(Res::Ok)
            }
            Cmd::ProcessQuery { target, kind } => {
                let id = ctx.fresh_msg();
                let m = Msg::new(ctx, id, *kind, DRIVER_TTL, child_salt(0xD217, idx, 0));
                ctx.log(Ev::SendBegin { actor: Actor::Driver, port: 2000 + *target, msg: id, kind: *kind, query: true, salt: m.salt, ttl: m.ttl });
                let r = with_q!(case.nodes[*target as usize].sync_inputs, |__f| guard(|| s.process_query(__f, m, &addrs[*target as usize])));
                let (replies, res) = match r {
                    Ok(rep) => (vec![(rep.replier, rep.msg, rep.via, rep.rvia)], Res::Ok),
                    Err(e) => (vec![], e),
                };
                ctx.log(Ev::SendEnd { actor: Actor::Driver, port: 2000 + *target, msg: id, replies });
                res
            }
            Cmd::ProcessSource { src, kind, pmode } => {
                let id = ctx.fresh_msg();
                let m = Msg::new(ctx, id, *kind, DRIVER_TTL, child_salt(0xD217, idx, 0));
                match sources.get_mut(*src as usize) {
                    Some(Source::Event(es)) => {
                        ctx.log(Ev::SendBegin { actor: Actor::Driver, port: 3000 + *src, msg: id, kind: *kind, query: false, salt: m.salt, ttl: m.ttl });
                        // `process` runs the action once, now, whatever its kind
                        let action = match pmode {
                            1 => es.periodic_event(Duration::from_nanos(1_000_000_007), m),
                            2 => es.keyed_event(m).0,
                            _ => es.event(m),
                        };
                        let r = guard(|| s.process(action));
                        ctx.log(Ev::SendEnd { actor: Actor::Driver, port: 3000 + *src, msg: id, replies: vec![] });
                        r.err().unwrap_or(Res::Ok)
                    }
                    Some(Source::Query(qs)) => {
                        ctx.log(Ev::SendBegin { actor: Actor::Driver, port: 3000 + *src, msg: id, kind: *kind, query: true, salt: m.salt, ttl: m.ttl });
                        let (action, mut rx) = qs.query(m);
                        let r = guard(|| s.process(action));
                        let replies: Vec<(u16, u64, u32, u32)> = match rx.take() {
                            Some(it) => it.map(|r| (r.replier, r.msg, r.via, r.rvia)).collect(),
                            None => vec![],
                        };
                        ctx.log(Ev::SendEnd { actor: Actor::Driver, port: 3000 + *src, msg: id, replies });
                        r.err().unwrap_or(Res::Ok)
                    }
                    None => Res::Ok,
                }
            }
            Cmd::Step => guard(|| s.step()).err().unwrap_or(Res::Ok),
            Cmd::StepUntil { when } => {
                let now = s.time();
                let (rel, abs) = when_parts(*when, case.cfg.t0, now);
                let r = match (rel, abs) {
                    (Some(d), _) => guard(|| s.step_until(Duration::from_nanos(d))),
                    (None, Some(t)) => guard(|| s.step_until(mtt(t))),
                    _ => unreachable!(),
                };
                r.err().unwrap_or(Res::Ok)
            }
            Cmd::Sched { target, kind, when, mode, via } => {
                do_sched(ctx, case, Actor::Driver, sch, &addrs, Some(&mut sources), &keys, idx as u64, *target, *kind, *when, *mode, *via);
                Res::Ok
            }
            Cmd::Cancel { slot, how } => {
                keys.cancel(ctx, Actor::Driver, *slot, *how);
                Res::Ok
            }
            Cmd::SinkRead { sink, n } => {
                read_sink(ctx, &mut sinks, *sink, *n);
                Res::Ok
            }
            Cmd::SinkCtl { sink, open } => {
                if let Some(sk) = sinks.get_mut(*sink as usize) {
                    match (sk, *open) {
                        (Sink::Buffer(b), true) => b.open(),
                        (Sink::Buffer(b), false) => b.close(),
                        (Sink::Slot(b), true) => b.open(),
                        (Sink::Slot(b), false) => b.close(),
                    }
                }
                ctx.log(Ev::SinkCtl { sink: *sink, open: *open });
                Res::Ok
            }
            Cmd::SpawnAux { aux } => {
                if let Some(script) = case.aux.get(*aux as usize).cloned() {
                    let a = *aux;
                    let ctx2 = ctx.clone();
                    let case2 = case.clone();
                    let sch2 = sch.clone();
                    let addrs2 = addrs.clone();
                    let keys2 = keys.clone();
                    let h = rt::spawn(move || {
                        ctx2.log(Ev::AuxBegin { aux: a });
                        for (k, c) in script.iter().enumerate() {
                            match c {
                                AuxCmd::Sched { target, kind, when, mode } => do_sched(
                                    &ctx2,
                                    &case2,
                                    Actor::Aux(a),
                                    &sch2,
                                    &addrs2,
                                    None,
                                    &keys2,
                                    0x4000 + (a as u64) * 64 + k as u64,
                                    *target,
                                    *kind,
                                    *when,
                                    *mode,
                                    Via::Direct,
                                ),
                                AuxCmd::Cancel { slot, how } => keys2.cancel(&ctx2, Actor::Aux(a), *slot, *how),
                                AuxCmd::ReadTime => {
                                    let t = tt(sch2.time());
                                    ctx2.log(Ev::TimeRead { actor: Actor::Aux(a), time: t });
                                }
                                AuxCmd::SinkRead { .. } => {}
                            }
                        }
                        ctx2.log(Ev::AuxEnd { aux: a });
                    });
                    aux_handles.push((a, h));
                }
                Res::Ok
            }
            Cmd::JoinAux => {
                for (_, h) in aux_handles.drain(..) {
                    let _ = h.join();
                }
                Res::Ok
            }
            Cmd::DropSim => {
                // Handled below by leaving the loop.
                ctx.log(Ev::CmdEnd { idx, res: Res::Ok, time: time_before, next_deadline: None });
                break;
            }
        };
        if matches!(res, Res::ApiPanic(_)) {
            poisoned = true;
        }
        let nd = if poisoned { None } else { s.verif_next_deadline().map(tt) };
        let t_after = if poisoned { time_before } else { tt(s.time()) };
        ctx.log(Ev::CmdEnd { idx, res, time: t_after, next_deadline: nd });
    }

    // Auxiliary threads always finish before the simulation is dropped.
    for (_, h) in aux_handles.drain(..) {
        let _ = h.join();
    }

    // Drop: the simulation and the external handles, in either order.
    // (Orphan mailboxes are the user's own objects, not handles of the simulation: they are
    // always dropped last.)
    let mut externals = Some((scheduler, keys.drain(), sources, sinks, addrs));
    if case.cfg.drop_handles_first {
        drop(externals.take());
    }
    ctx.log(Ev::DropSimBegin);
    ctx.sim_dropping.store(true, Ordering::SeqCst);
    let dr = catch_unwind(AssertUnwindSafe(|| drop(sim.take())));
    if let Err(p) = dr {
        ctx.violation("api_panicked", format!("drop(Simulation) panicked: {}", payload_text(&*p)));
    }
    ctx.sim_dropping.store(false, Ordering::SeqCst);
    ctx.sim_dropped.store(true, Ordering::SeqCst);
    ctx.log(Ev::DropSimEnd);
    drop(externals.take());
    drop(orphans);
    // From here on no waker may be used by the harness itself.
    ctx.wake_on_drop.store(false, Ordering::SeqCst);
    let ws = std::mem::take(&mut *ctx.wakers.lock().unwrap());
    drop(ws);
    // A timed-out step of the single-threaded executor is abandoned on a
    // detached helper thread: give it the chance to finish so that what it
    // still does after the drop is observed (bounded).
    if case.cfg.timeout_set && case.cfg.threads <= 1 {
        for _ in 0..20_000 {
            let models_alive = ctx.toks.lock().unwrap_or_else(|e| e.into_inner()).live.values().any(|k| *k == crate::ctx::TokKind::Model);
            if !models_alive {
                break;
            }
            rt::yield_now();
        }
    }

    // Nothing of the library may be left in the context, which outlives the execution.
    ctx.pool_closed.store(true, Ordering::SeqCst);
    ctx.wake_on_drop.store(false, Ordering::SeqCst);
    let ws = std::mem::take(&mut *ctx.wakers.lock().unwrap());
    drop(ws);

    let probes = verif::uninstall();
    RunInfo { probes, completed: true }
}

#[allow(unused)]
fn _unused(_: MonotonicTime) {}
