//! Static description of one simulated case: configuration, bench (models,
//! connections, sinks, sources), handler programs, driver script, fault plan.
//! A case is generated from the run seed before entering the simulator and is
//! stored verbatim in replay files.

use serde::{Deserialize, Serialize};

pub type T = (i64, u32);

#[derive(Clone, Debug, Serialize, Deserialize, PartialEq)]
pub struct Case {
    pub profile: String,
    pub cfg: Config,
    pub nodes: Vec<NodeSpec>,
    #[serde(default)]
    pub sinks: Vec<SinkSpec>,
    #[serde(default)]
    pub sources: Vec<SourceSpec>,
    pub script: Vec<Cmd>,
    #[serde(default)]
    pub aux: Vec<Vec<AuxCmd>>,
    /// Component harness case (C12, C13, C15): when present, the bench above is
    /// empty and the component scenario below runs instead of a simulation.
    #[serde(default, skip_serializing_if = "Option::is_none")]
    pub comp: Option<Comp>,
}

#[derive(Clone, Debug, Serialize, Deserialize, PartialEq)]
pub enum Comp {
    Queue(QueueCase),
    Chan(ChanCase),
    Task(TaskCase),
    Time(TimeCase),
    Set(SetCase),
}

/// Scenario on the broadcasters' task set: the owner waits until every
/// sub-task index was reported as scheduled; waker threads wake indices.
#[derive(Clone, Debug, Serialize, Deserialize, PartialEq)]
pub struct SetCase {
    pub len: u8,
    /// Per waker thread: (index, by value) in order. Every index is woken at least once overall.
    pub wakers: Vec<Vec<(u8, bool)>>,
    /// `notify_count` argument of `take_scheduled`.
    pub notify_count: u8,
    /// Indices woken before the owner starts; the owner discards them first (stale wake-ups of a
    /// cancelled broadcast).
    #[serde(default)]
    pub stale: Vec<u8>,
}

/// Operations on the raw mailbox queue.
#[derive(Clone, Copy, Debug, Serialize, Deserialize, PartialEq)]
pub enum QOp {
    Push(u64),
    /// Pop and keep the borrow (the slot stays occupied).
    Pop,
    /// Release the outstanding borrow, if any.
    Release,
    Close,
    Yield,
}

#[derive(Clone, Debug, Serialize, Deserialize, PartialEq)]
pub struct QueueCase {
    pub cap: u8,
    /// Producer threads (push / close / yield).
    pub producers: Vec<Vec<QOp>>,
    /// The single consumer thread (pop / release / close / yield).
    pub consumer: Vec<QOp>,
}

/// Scenario on the real asynchronous channel.
#[derive(Clone, Debug, Serialize, Deserialize, PartialEq)]
pub struct ChanCase {
    pub cap: u8,
    /// Values sent by each producer thread, in order.
    pub producers: Vec<Vec<u64>>,
    /// The receiver closes the channel after this many messages (`None`: never).
    #[serde(default)]
    pub close_after: Option<u8>,
    /// Producer `p` closes the channel after its `k`-th send.
    #[serde(default)]
    pub sender_close: Option<(u8, u8)>,
    /// With `close_after`: the receiver is dropped instead of closed (every sender still waiting
    /// for space must be resumed and fail; what the mailbox held is released with it).
    #[serde(default)]
    pub recv_drop: bool,
}

/// Handle operations on one task.
#[derive(Clone, Copy, Debug, Serialize, Deserialize, PartialEq)]
pub enum TOp {
    /// Take a runnable from the run queue and run it.
    Run,
    /// Take a runnable from the run queue and drop it.
    DropRunnable,
    WakeVal,
    WakeRef,
    CloneWaker,
    DropWaker,
    Cancel,
    DropToken,
    PollPromise,
    DropPromise,
    Yield,
}

#[derive(Clone, Debug, Serialize, Deserialize, PartialEq)]
pub struct TaskCase {
    /// `true`: `spawn` (with a promise); `false`: `spawn_and_forget`.
    pub with_promise: bool,
    /// The future completes at its n-th poll (1-based).
    pub ready_at: u8,
    /// The future wakes itself (by reference) while being polled.
    pub self_wake: bool,
    /// The future panics at this poll (1-based), if any.
    #[serde(default)]
    pub panic_at: Option<u8>,
    pub threads: Vec<Vec<TOp>>,
}

#[derive(Clone, Debug, Serialize, Deserialize, PartialEq)]
pub struct TimeCase {
    /// Number of writes of the single writer.
    pub writes: u8,
    /// Per reader: sequence of reads (`true`: `read()`, `false`: `try_read()`).
    pub readers: Vec<Vec<bool>>,
    /// Step between consecutive time values: whole seconds, nanoseconds.
    pub step: (u32, u32),
    /// Seconds of the first value (negative: before the epoch; the values may cross the epoch).
    #[serde(default = "time_base")]
    pub base: i64,
}
fn time_base() -> i64 {
    1_000
}

#[derive(Clone, Debug, Serialize, Deserialize, PartialEq)]
pub struct Config {
    /// 1 = single-threaded executor, n > 1 = multi-threaded with n workers.
    pub threads: u8,
    /// Mailbox identity permutation (knob N).
    pub chan_mask: u8,
    /// Worker search rounds before giving up (knob E).
    pub search_rounds: u8,
    /// Start time, nanoseconds after the epoch.
    pub t0: u64,
    /// Scripted clock: answer per `synchronize` call index; `None` =
    /// `Synchronized`, `Some(lag)` = `OutOfSync(lag ns)`. Calls beyond the list
    /// are `Synchronized`.
    #[serde(default)]
    pub clock: Vec<Option<u64>>,
    #[serde(default)]
    pub tolerance: Option<u64>,
    /// Step time-out configured (the wall-clock value is irrelevant: expiry is
    /// a simulator decision).
    #[serde(default)]
    pub timeout_set: bool,
    /// The time-out is set through `Simulation::set_timeout` after `init` instead of `SimInit::set_timeout`.
    #[serde(default)]
    pub timeout_late: bool,
    /// Permutation (0..6) of the order of the `SimInit` builder calls `set_clock`,
    /// `set_clock_tolerance`, `set_timeout`.
    #[serde(default)]
    pub builder_order: u8,
    /// Fault T: the n-th blocking `park_timeout` times out.
    #[serde(default)]
    pub timeout_at_block: Option<u32>,
    /// Handler futures wake every leaked waker when they are dropped (tasks
    /// waking one another while being dropped).
    #[serde(default)]
    pub wake_on_drop: bool,
    /// Drop the external handles (scheduler, keys, sources, sinks, addresses)
    /// before the simulation instead of after it.
    #[serde(default)]
    pub drop_handles_first: bool,
}

#[derive(Clone, Debug, Serialize, Deserialize, PartialEq)]
pub struct NodeSpec {
    pub name: String,
    /// `Some(p)`: built as a sub-model of node `p`.
    #[serde(default)]
    pub parent: Option<u16>,
    pub cap: u8,
    /// `false`: the mailbox is never added to the simulation (fault O).
    #[serde(default = "yes")]
    pub registered: bool,
    /// `true`: the mailbox is dropped before `init` (fault R).
    #[serde(default)]
    pub dead: bool,
    #[serde(default)]
    pub outs: Vec<Vec<Edge>>,
    #[serde(default)]
    pub reqs: Vec<Vec<Edge>>,
    #[serde(default)]
    pub init: Vec<Op>,
    /// Program per message kind.
    #[serde(default)]
    pub on: Vec<Vec<Op>>,
    /// Fault P: panic at the n-th (0-based) handler invocation of this node
    /// (`u32::MAX - 1` = in `init`), with payload type 0 = &str, 1 = String,
    /// 2 = u32.
    #[serde(default)]
    pub panic_at: Option<(u32, u8)>,
    /// Sub-models only: the mailbox is created inside the parent's `build()` and no address of
    /// it exists before `add_submodel`; only the model's own children send to it, through an
    /// address the model hands out from its own `build()` (`BuildContext::address()`).
    #[serde(default)]
    pub late_mailbox: bool,
    /// The model reads only this many replies of each query it makes and drops the rest of the
    /// reply iterator (stale reply slots must not leak into the next query).
    #[serde(default)]
    pub reply_take: Option<u8>,
    /// The model's inputs are synchronous methods (`fn`, not `async fn`): NeXosim runs them
    /// eagerly when the message is dequeued. All handler operations of such a node satisfy
    /// `Op::is_sync`.
    #[serde(default)]
    pub sync_inputs: bool,
}
fn yes() -> bool {
    true
}

#[derive(Clone, Debug, Serialize, Deserialize, PartialEq)]
pub struct Edge {
    /// Connection identifier (unique in the case, > 0).
    pub cid: u32,
    pub target: Target,
    /// `map` edges write their `cid` into the message's `via`.
    #[serde(default)]
    pub map: bool,
    /// `filter_map`: accepts iff `salt % m == r`; also writes `via`.
    #[serde(default)]
    pub filter: Option<(u8, u8)>,
}

impl Edge {
    pub fn accepts(&self, salt: u32) -> bool {
        match self.filter {
            None => true,
            Some((m, r)) => salt % (m.max(1) as u32) == r as u32,
        }
    }
    pub fn via(&self) -> u32 {
        if self.map || self.filter.is_some() {
            self.cid
        } else {
            0
        }
    }
}

#[derive(Clone, Copy, Debug, Serialize, Deserialize, PartialEq, Eq, Hash, PartialOrd, Ord)]
pub enum Target {
    Node(u16),
    Sink(u16),
}

#[derive(Clone, Debug, Serialize, Deserialize, PartialEq)]
pub struct SinkSpec {
    /// `Some(cap)`: `EventBuffer` with that capacity; `None`: `EventSlot`.
    pub buffer: Option<u8>,
    #[serde(default = "yes")]
    pub open: bool,
}

#[derive(Clone, Debug, Serialize, Deserialize, PartialEq)]
pub struct SourceSpec {
    pub edges: Vec<Edge>,
    #[serde(default)]
    pub query: bool,
}

#[derive(Clone, Copy, Debug, Serialize, Deserialize, PartialEq)]
pub enum When {
    /// Relative deadline in ns (0 = "now": invalid for scheduling).
    Rel(u64),
    /// Absolute: ns after the start time.
    Abs(u64),
    /// Absolute: ns *before* the current time (invalid).
    Past(u64),
}

#[derive(Clone, Copy, Debug, Serialize, Deserialize, PartialEq)]
pub enum Mode {
    Plain,
    Keyed(u8),
    /// Period in ns (0 = invalid).
    Periodic(u64),
    KeyedPeriodic(u8, u64),
}

#[derive(Clone, Debug, Serialize, Deserialize, PartialEq)]
pub enum Op {
    Send { port: u8, kind: u8 },
    Query { port: u8, kind: u8 },
    /// Schedule an event on the model's own input.
    Sched { kind: u8, when: When, mode: Mode },
    /// how: 0 = `cancel()`, 1 = `clone().cancel()`, 2 = `into_auto()` then drop.
    Cancel { slot: u8, how: u8 },
    ReadTime,
    LeakWaker,
    /// how: 0 = `wake_by_ref` all, 1 = `wake()` (by value) the oldest,
    /// 2 = drop the oldest.
    ChaosWake { how: u8 },
    /// Adds a connection to output port `port` (clone-sharing check).
    Connect { port: u8, target: u16, cid: u32 },
    /// Builds, runs and drops a small single-threaded simulation inside the handler (a
    /// simulation nested in a model).
    Nested { models: u8 },
    /// Keeps the step busy until the executor's timed wait has elapsed (no-op unless a step
    /// time-out is in force and has not elapsed yet): an overrunning step.
    HoldUntilTimeout,
}

/// Periods are written as `u64` nanoseconds; values from `HUGE_PERIOD` on stand for periods
/// beyond the range of a `u64` nanosecond count (about 584.5 years): `2^64 + (p - 2^63)` ns.
pub const HUGE_PERIOD: u64 = 1 << 63;
pub fn period_ns(p: u64) -> u128 {
    if p >= HUGE_PERIOD {
        (1u128 << 64) + (p - HUGE_PERIOD) as u128
    } else {
        p as u128
    }
}
pub fn period_dur(p: u64) -> std::time::Duration {
    let ns = period_ns(p);
    std::time::Duration::new((ns / 1_000_000_000) as u64, (ns % 1_000_000_000) as u32)
}

impl Op {
    /// Operations that never suspend (allowed in the handlers of a node with synchronous inputs).
    pub fn is_sync(&self) -> bool {
        matches!(self, Op::Sched { .. } | Op::Cancel { .. } | Op::ReadTime | Op::HoldUntilTimeout | Op::Connect { .. })
    }
}

impl NodeSpec {
    /// Turns the node into one with synchronous inputs (drops the handler operations that suspend).
    pub fn make_sync(&mut self) {
        self.sync_inputs = true;
        for h in self.on.iter_mut() {
            h.retain(|o| o.is_sync());
        }
    }
}

#[derive(Clone, Copy, Debug, Serialize, Deserialize, PartialEq)]
pub enum Via {
    /// `Scheduler::schedule_*event`.
    Direct,
    /// `Scheduler::schedule(deadline, EventSource::*event(..))`.
    Action(u16),
}

#[derive(Clone, Debug, Serialize, Deserialize, PartialEq)]
pub enum Cmd {
    ProcessEvent { target: u16, kind: u8 },
    ProcessQuery { target: u16, kind: u8 },
    /// `pmode`: the action processed is built with 0 = `event`, 1 = `periodic_event` (the
    /// periodicity must be ignored by `process`), 2 = `keyed_event` (key dropped, not cancelled).
    ProcessSource {
        src: u16,
        kind: u8,
        #[serde(default)]
        pmode: u8,
    },
    Step,
    StepUntil { when: When },
    Sched { target: u16, kind: u8, when: When, mode: Mode, via: Via },
    Cancel { slot: u8, how: u8 },
    SinkRead { sink: u16, n: u8 },
    SinkCtl { sink: u16, open: bool },
    SpawnAux { aux: u16 },
    JoinAux,
    /// Drop the simulation now (remaining commands that need it are skipped).
    DropSim,
}

/// Commands of an auxiliary thread holding a `Scheduler` clone (fault X).
#[derive(Clone, Debug, Serialize, Deserialize, PartialEq)]
pub enum AuxCmd {
    Sched { target: u16, kind: u8, when: When, mode: Mode },
    Cancel { slot: u8, how: u8 },
    ReadTime,
    /// Read from an event buffer sink concurrently with the simulation.
    SinkRead { sink: u16, n: u8 },
}

impl Case {
    pub fn fq_name(&self, idx: usize) -> String {
        match self.nodes[idx].parent {
            None => self.nodes[idx].name.clone(),
            Some(p) => format!("{}.{}", self.fq_name(p as usize), self.nodes[idx].name),
        }
    }
    pub fn is_mt(&self) -> bool {
        self.cfg.threads > 1
    }
    /// All edges of the case with their origin: (node or source index, is_source, port, is_req).
    pub fn edge_by_cid(&self, cid: u32) -> Option<&Edge> {
        for n in &self.nodes {
            for p in n.outs.iter().chain(n.reqs.iter()) {
                for e in p {
                    if e.cid == cid {
                        return Some(e);
                    }
                }
            }
        }
        for s in &self.sources {
            for e in &s.edges {
                if e.cid == cid {
                    return Some(e);
                }
            }
        }
        None
    }
    /// Whether node `idx` belongs to the simulation (itself and all ancestors
    /// registered and alive).
    pub fn in_sim(&self, idx: usize) -> bool {
        let n = &self.nodes[idx];
        if !n.registered || n.dead {
            return false;
        }
        match n.parent {
            None => true,
            Some(p) => self.in_sim(p as usize),
        }
    }
}
