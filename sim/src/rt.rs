//! Tiny runtime façade: the same harness code runs on shuttle's simulated
//! threads (E1) or on real threads scheduled by Miri (E2).

#[cfg(feature = "e1")]
pub use shuttle::thread::{spawn, yield_now, JoinHandle};
#[cfg(not(feature = "e1"))]
pub use std::thread::{spawn, yield_now, JoinHandle};

/// Synchronisation primitives whose operations are scheduling points of the
/// simulator (E1) or plain `std` primitives (E2).
pub mod sync {
    #[cfg(feature = "e1")]
    pub use shuttle::sync::{
        atomic::{AtomicBool, AtomicU64, AtomicUsize, Ordering},
        Condvar, Mutex,
    };
    #[cfg(not(feature = "e1"))]
    pub use std::sync::{
        atomic::{AtomicBool, AtomicU64, AtomicUsize, Ordering},
        Condvar, Mutex,
    };
}

/// Identifier of the current (simulated) thread.
#[cfg(feature = "e1")]
pub fn me() -> u32 {
    usize::from(shuttle::current::me()) as u32
}

#[cfg(not(feature = "e1"))]
pub fn me() -> u32 {
    use std::sync::atomic::{AtomicU32, Ordering};
    static NEXT: AtomicU32 = AtomicU32::new(0);
    thread_local! { static ME: u32 = NEXT.fetch_add(1, Ordering::Relaxed); }
    ME.with(|m| *m)
}

/// Minimal `block_on` for the component harnesses: the waker sets a flag under
/// a (simulated) mutex and signals a condition variable.
pub fn block_on<F: std::future::Future>(fut: F) -> F::Output {
    use std::sync::Arc;
    use std::task::{Context, Poll, Wake, Waker};
    struct Signal {
        flag: sync::Mutex<bool>,
        cv: sync::Condvar,
    }
    impl Wake for Signal {
        fn wake(self: Arc<Self>) {
            self.wake_by_ref()
        }
        fn wake_by_ref(self: &Arc<Self>) {
            let mut f = self.flag.lock().unwrap();
            *f = true;
            drop(f);
            self.cv.notify_one();
        }
    }
    let sig = Arc::new(Signal { flag: sync::Mutex::new(false), cv: sync::Condvar::new() });
    let waker = Waker::from(sig.clone());
    let mut cx = Context::from_waker(&waker);
    let mut fut = std::pin::pin!(fut);
    loop {
        if let Poll::Ready(v) = fut.as_mut().poll(&mut cx) {
            return v;
        }
        let mut f = sig.flag.lock().unwrap();
        while !*f {
            f = sig.cv.wait(f).unwrap();
        }
        *f = false;
    }
}
