//! Tiny runtime façade: the same harness code runs on shuttle's simulated
//! threads (E1) or on real threads scheduled by Miri (E2).

#[cfg(feature = "e1")]
pub use shuttle::thread::{spawn, yield_now, JoinHandle};
#[cfg(not(feature = "e1"))]
pub use std::thread::{spawn, yield_now, JoinHandle};

/// Identifier of the current (simulated) thread.
#[cfg(feature = "e1")]
pub fn me() -> u32 {
    usize::from(shuttle::current::me()) as u32
}

#[cfg(not(feature = "e1"))]
pub fn me() -> u32 {
    use std::sync::atomic::{AtomicU32, Ordering};
    static NEXT: AtomicU32 = AtomicU32::new(0);
    thread_local! { static ME: u32 = NEXT.fetch_add(1, Ordering::Relaxed); }
    ME.with(|m| *m)
}
