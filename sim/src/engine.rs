//! Executes cases under the simulator (E1: shuttle with the harness-owned
//! recording scheduler) and collects everything the oracles need.
//!
//! One `shuttle::Runner` serves a whole batch of executions (its coroutine
//! stacks are reused); the harness scheduler asks the work source for the next
//! (case, schedule) at the start of every execution.

use std::cell::RefCell;
use std::panic::{catch_unwind, AssertUnwindSafe};
use std::sync::{Arc, Mutex};

use shuttle::scheduler::{Schedule, Scheduler, Task, TaskId};

use crate::case::Case;
use crate::ctx::ExecCtx;
use crate::driver::{self, RunInfo};
use crate::sched::{RecSched, SchedKind, SchedReport, SchedSpec};

pub use crate::outcome::{Failure, Outcome};

/// Supplies the executions of a batch and receives their outcomes.
pub trait WorkSource: Send {
    fn next(&mut self) -> Option<(Arc<Case>, SchedSpec)>;
    fn done(&mut self, case: &Arc<Case>, spec: &SchedSpec, outcome: Outcome);
}

pub type Body = Arc<dyn Fn(&Arc<Case>, &Arc<ExecCtx>) -> RunInfo + Send + Sync>;

thread_local! {
    /// Location and message of the last panic on this OS thread (set by the
    /// process-wide panic hook installed in `init_process`).
    pub static LAST_PANIC: RefCell<Option<String>> = const { RefCell::new(None) };
}

/// Installs a silent panic hook that records the panic location. Must be
/// called once per process; shuttle's own hook (installed by its first run)
/// is replaced so that injected model panics cost nothing.
pub fn init_process() {
    struct Nop;
    impl Scheduler for Nop {
        fn new_execution(&mut self) -> Option<Schedule> {
            None
        }
        fn next_task(&mut self, r: &[&Task], _c: Option<TaskId>, _y: bool) -> Option<TaskId> {
            Some(r[0].id())
        }
        fn next_u64(&mut self) -> u64 {
            0
        }
    }
    struct Once(bool);
    impl Scheduler for Once {
        fn new_execution(&mut self) -> Option<Schedule> {
            if self.0 {
                None
            } else {
                self.0 = true;
                Some(Schedule::new(0))
            }
        }
        fn next_task(&mut self, r: &[&Task], _c: Option<TaskId>, _y: bool) -> Option<TaskId> {
            Some(r[0].id())
        }
        fn next_u64(&mut self) -> u64 {
            0
        }
    }
    let _ = Nop;
    // A trivial execution makes shuttle install its hook (a `Once`).
    shuttle::Runner::new(Once(false), shuttle_config(1000)).run(|| {});
    // Model panics are part of the workload (fault P): a panic that unwinds inside a simulated
    // thread and is caught by the code under test must not end the execution (vendored
    // shuttle-engine, "nxv patch").
    shuttle_engine::runtime::execution::set_tolerate_task_panics(true);
    std::panic::set_hook(Box::new(|info| {
        let loc = info.location().map(|l| format!("{}:{}:{}", l.file(), l.line(), l.column())).unwrap_or_default();
        let msg = crate::driver::payload_text(info.payload());
        LAST_PANIC.with(|l| *l.borrow_mut() = Some(format!("{} @ {}", msg, loc)));
        if std::env::var_os("NXV_PANIC_TRACE").is_some() {
            eprintln!("[panic] {} @ {}", msg, loc);
            if std::env::var_os("NXV_PANIC_BT").is_some() {
                eprintln!("{}", std::backtrace::Backtrace::force_capture());
            }
        }
    }));
}

fn shuttle_config(max_steps: usize) -> shuttle::Config {
    let mut cfg = shuttle::Config::new();
    cfg.stack_size = 256 * 1024;
    cfg.failure_persistence = shuttle::FailurePersistence::None;
    cfg.max_steps = shuttle::MaxSteps::FailAfter(max_steps);
    cfg.silence_warnings = true;
    cfg
}

/// Scheduling points per execution before it counts as not returning. Typical executions take
/// 1-5 k; the bound is far above the longest legitimate run seen (a few 100 k under uniform random
/// scheduling with spinning workers), so that reaching it means a livelock.
pub const MAX_STEPS: usize = 3_000_000;

struct Current {
    case: Arc<Case>,
    spec: SchedSpec,
    ctx: Arc<ExecCtx>,
    info: Option<RunInfo>,
}

struct Shared<'a> {
    source: Option<&'a mut dyn WorkSource>,
    current: Option<Current>,
    core: Option<RecSched>,
}

fn finish(cur: Current, failure: Option<Failure>, sched: SchedReport) -> (Arc<Case>, SchedSpec, Outcome) {
    let ctx = cur.ctx;
    let log = std::mem::take(&mut *ctx.log.lock().unwrap_or_else(|e| e.into_inner()));
    let (live_tokens, double_drops, tokens_created, late_drops) = {
        let t = ctx.toks.lock().unwrap_or_else(|e| e.into_inner());
        (t.live.iter().map(|(k, v)| (*k, *v)).collect(), t.double_drops.clone(), t.created, t.late_drops.clone())
    };
    let drop_wakes = ctx.drop_wakes.load(std::sync::atomic::Ordering::Relaxed);
    let violations = std::mem::take(&mut *ctx.violations.lock().unwrap_or_else(|e| e.into_inner()));
    let after_drop = std::mem::take(&mut *ctx.after_drop_activity.lock().unwrap_or_else(|e| e.into_inner()));
    let last_panic = LAST_PANIC.with(|l| l.borrow().clone());
    (
        cur.case,
        cur.spec,
        Outcome { log, info: cur.info, sched, failure, live_tokens, double_drops, tokens_created, violations, after_drop, last_panic, late_drops, drop_wakes },
    )
}

/// The scheduler handed to shuttle: one instance per `Runner`, many executions.
struct BatchSched {
    shared: Arc<Mutex<Shared<'static>>>,
}

impl Scheduler for BatchSched {
    fn new_execution(&mut self) -> Option<Schedule> {
        let mut sh = self.shared.lock().unwrap();
        // Deliver the outcome of the execution that just completed normally.
        if let Some(cur) = sh.current.take() {
            let rep = sh.core.take().map(|c| c.report).unwrap_or_default();
            let _ = nexosim::verif::uninstall();
            let (case, spec, out) = finish(cur, None, rep);
            sh.source.as_mut()?.done(&case, &spec, out);
        }
        let (case, spec) = sh.source.as_mut()?.next()?;
        let ctx = ExecCtx::new(case.nodes.len());
        LAST_PANIC.with(|l| *l.borrow_mut() = None);
        sh.core = Some(RecSched::new(spec.clone(), true));
        let seed = spec.seed;
        sh.current = Some(Current { case, spec, ctx, info: None });
        Some(Schedule::new(seed))
    }

    fn next_task(&mut self, runnable: &[&Task], current: Option<TaskId>, is_yielding: bool) -> Option<TaskId> {
        let mut sh = self.shared.lock().unwrap();
        sh.core.as_mut().expect("execution in progress").next_task(runnable, current, is_yielding)
    }

    fn next_u64(&mut self) -> u64 {
        let mut sh = self.shared.lock().unwrap();
        sh.core.as_mut().expect("execution in progress").next_u64()
    }
}

/// Runs every execution supplied by `source` with `body` as the main
/// simulated thread.
pub fn run_batch(source: &mut dyn WorkSource, body: Body, max_steps: usize) {
    // SAFETY of the lifetime extension: `shared` (and every clone of it) is
    // dropped before this function returns.
    let source_static: &'static mut dyn WorkSource = unsafe { std::mem::transmute(source) };
    let shared: Arc<Mutex<Shared<'static>>> = Arc::new(Mutex::new(Shared { source: Some(source_static), current: None, core: None }));
    loop {
        let sched = BatchSched { shared: shared.clone() };
        let runner = shuttle::Runner::new(sched, shuttle_config(max_steps));
        let sh2 = shared.clone();
        let body2 = body.clone();
        let r = catch_unwind(AssertUnwindSafe(move || {
            runner.run(move || {
                let (case, ctx) = {
                    let sh = sh2.lock().unwrap();
                    let c = sh.current.as_ref().expect("current execution");
                    (c.case.clone(), c.ctx.clone())
                };
                let info = body2(&case, &ctx);
                let mut sh = sh2.lock().unwrap();
                if let Some(c) = sh.current.as_mut() {
                    c.info = Some(info);
                }
            });
        }));
        match r {
            Ok(_) => break,
            Err(p) => {
                let _ = nexosim::verif::uninstall();
                let text = driver::payload_text(&*p);
                let failure = if text.contains("deadlock!") {
                    Failure::Deadlock(text)
                } else if text.contains("exceeded max_steps") {
                    Failure::StepLimit
                } else {
                    Failure::Panic(text)
                };
                let mut sh = match shared.lock() {
                    Ok(g) => g,
                    Err(e) => e.into_inner(),
                };
                if let Some(cur) = sh.current.take() {
                    let rep = sh.core.take().map(|c| c.report).unwrap_or_default();
                    let (case, spec, out) = finish(cur, Some(failure), rep);
                    if let Some(src) = sh.source.as_mut() {
                        src.done(&case, &spec, out);
                    }
                }
                // Continue with a fresh runner.
            }
        }
    }
    // The lifetime-extended reference must not outlive this call, even if a
    // failed execution leaked a clone of `shared`.
    match shared.lock() {
        Ok(mut g) => g.source = None,
        Err(e) => e.into_inner().source = None,
    };
}

pub fn default_body() -> Body {
    Arc::new(|case, ctx| if case.comp.is_some() { crate::comp::run_comp(case, ctx) } else { driver::run_case(case, ctx) })
}

struct OneShot {
    item: Option<(Arc<Case>, SchedSpec)>,
    out: Option<Outcome>,
}
impl WorkSource for OneShot {
    fn next(&mut self) -> Option<(Arc<Case>, SchedSpec)> {
        self.item.take()
    }
    fn done(&mut self, _case: &Arc<Case>, _spec: &SchedSpec, outcome: Outcome) {
        self.out = Some(outcome);
    }
}

/// Executes a single case under a single schedule.
pub fn execute(case: &Arc<Case>, spec: &SchedSpec) -> Outcome {
    execute_with(case, spec, MAX_STEPS, default_body())
}

pub fn execute_with(case: &Arc<Case>, spec: &SchedSpec, max_steps: usize, body: Body) -> Outcome {
    let mut src = OneShot { item: Some((case.clone(), spec.clone())), out: None };
    run_batch(&mut src, body, max_steps);
    src.out.expect("outcome")
}

#[allow(unused)]
fn _k(_: SchedKind) {}
