//! Property table: generator profile, schedule budget and oracle per property.

use crate::case::*;
use crate::engine::Outcome;
use crate::explore::{single_variant, Group, PropSpec};
use crate::gen::{self, BenchOpts};
use crate::hist::Hist;
use crate::oracle::{self, flow, Violation};
use crate::rng::Rng;
use nexosim::verif::Probe;

fn probe(out: &Outcome, p: Probe) -> u64 {
    out.info.as_ref().map(|i| i.probes[p as usize]).unwrap_or(0)
}

// ---------------------------------------------------------------- C02
fn gen_c02(rng: &mut Rng, thorough: bool) -> Case {
    let o = BenchOpts {
        min_nodes: 3,
        max_nodes: if thorough { 6 } else { 5 },
        mt_only: true,
        caps: vec![1, 1, 1, 2, 2, 3, 16],
        sinks: false,
        max_threads: if thorough { 6 } else { 4 },
        ..Default::default()
    };
    let mut c = gen::gen_flow(rng, &o);
    c.profile = "causal".into();
    c
}
fn check_c02(case: &Case, out: &Outcome, h: &Hist, _g: &mut Group) -> Vec<Violation> {
    let mut v = oracle::common(case, out, h);
    v.extend(flow::causal_order(case, h));
    v
}
fn nt_c02(_c: &Case, out: &Outcome, h: &Hist) -> bool {
    // at least one node processed messages from two different senders and a sender blocked on a full mailbox
    probe(out, Probe::PushFull) > 0 && h.handlers.len() >= 4
}

// ---------------------------------------------------------------- C03
fn gen_c03(rng: &mut Rng, thorough: bool) -> Case {
    let o = BenchOpts {
        min_nodes: 2,
        max_nodes: if thorough { 7 } else { 5 },
        sinks: true,
        max_threads: if thorough { 8 } else { 4 },
        ..Default::default()
    };
    let mut c = gen::gen_flow(rng, &o);
    c.profile = "conservation".into();
    c
}
fn check_c03(case: &Case, out: &Outcome, h: &Hist, _g: &mut Group) -> Vec<Violation> {
    let mut v = oracle::common(case, out, h);
    v.extend(flow::conservation(case, h));
    v.extend(flow::all_ok(h));
    v
}
fn nt_c03(_c: &Case, out: &Outcome, h: &Hist) -> bool {
    probe(out, Probe::PushFull) > 0 && h.handlers.len() >= 3
}

// ---------------------------------------------------------------- C04
fn gen_c04(rng: &mut Rng, thorough: bool) -> Case {
    let burst = rng.pct(if thorough { 6 } else { 3 });
    let o = BenchOpts {
        min_nodes: 2,
        max_nodes: if thorough { 7 } else { 5 },
        sinks: true,
        max_volume: if burst { 700 } else { 64 },
        max_ops: if burst { 4 } else { 3 },
        ..Default::default()
    };
    let mut c = gen::gen_flow(rng, &o);
    c.profile = "content-only".into();
    c
}
fn variants_c04(c: &Case, thorough: bool) -> Vec<Case> {
    let mut v = Vec::new();
    let threads: &[u8] = if thorough { &[1, 2, 3, 4, 8, 16] } else { &[1, 2, 3, 4] };
    for t in threads {
        let mut x = c.clone();
        x.cfg.threads = *t;
        v.push(x);
    }
    v
}
fn check_c04(case: &Case, out: &Outcome, h: &Hist, g: &mut Group) -> Vec<Violation> {
    let mut v = oracle::common(case, out, h);
    v.extend(flow::quiescence(case, h));
    v.extend(flow::all_ok(h));
    v.extend(flow::conservation(case, h).into_iter().filter(|x| x.rule == "c03_lost_delivery"));
    if out.failure.is_none() && v.is_empty() {
        let ms = format!("{:?}", flow::content_multiset(h));
        match &g.reference {
            None => {
                g.reference = Some(ms);
                g.reference_desc = format!("threads={}", case.cfg.threads);
            }
            Some(r) => {
                if *r != ms {
                    v.push(Violation::new(
                        "c04_executor_divergence",
                        format!("per-command multiset of handler invocations and sink writes with threads={} differs from the reference ({}):\n  ref: {}\n  got: {}", case.cfg.threads, g.reference_desc, r, ms),
                    ));
                }
            }
        }
    }
    v
}
fn nt_c04(c: &Case, out: &Outcome, _h: &Hist) -> bool {
    c.cfg.threads > 1 && probe(out, Probe::WorkerParks) + probe(out, Probe::LastWorkerParks) > 2
}

// ---------------------------------------------------------------- C05
fn gen_c05(rng: &mut Rng, thorough: bool) -> Case {
    let o = BenchOpts {
        min_nodes: 3,
        max_nodes: if thorough { 6 } else { 5 },
        mt_only: true,
        caps: vec![1, 1, 2, 2, 4, 16],
        max_threads: if thorough { 8 } else { 4 },
        ..Default::default()
    };
    let mut c = gen::gen_flow(rng, &o);
    // Fault W: leak wakers of model tasks and wake them from other models' handlers.
    for n in c.nodes.iter_mut() {
        for ops in n.on.iter_mut() {
            if rng.pct(45) {
                let pos = rng.usize(ops.len() + 1);
                ops.insert(pos, Op::LeakWaker);
            }
            if rng.pct(55) {
                let pos = rng.usize(ops.len() + 1);
                ops.insert(pos, Op::ChaosWake { how: rng.below(3) as u8 });
            }
        }
    }
    c.profile = "isolation".into();
    c
}
fn check_c05(case: &Case, out: &Outcome, h: &Hist, _g: &mut Group) -> Vec<Violation> {
    let mut v = oracle::common(case, out, h);
    v.extend(flow::isolation(case, h));
    v
}
fn nt_c05(_c: &Case, out: &Outcome, _h: &Hist) -> bool {
    probe(out, Probe::RepollAfterWake) > 0 || probe(out, Probe::StealSuccess) > 0
}

// ---------------------------------------------------------------- C06
/// Profile *stall*: query loops, saturating event loops, orphan mailboxes,
/// sub-models; equally weighted with drainable benches.
fn gen_c06(rng: &mut Rng, thorough: bool) -> Case {
    let drainable = rng.pct(45);
    let o = BenchOpts {
        min_nodes: 1,
        max_nodes: if thorough { 6 } else { 4 },
        acyclic: drainable,
        submodels: true,
        caps: if drainable { vec![1, 2, 3, 5, 16] } else { vec![1, 1, 2, 2, 3, 4, 5] },
        filters: rng.pct(50),
        max_volume: 48,
        max_threads: if thorough { 8 } else { 4 },
        ..Default::default()
    };
    let mut c = gen::gen_bench(rng, &o);
    if !drainable {
        // Make loops likely: self-queries and back edges.
        let n = c.nodes.len();
        for i in 0..n {
            if rng.pct(35) {
                let t = if rng.pct(50) { i } else { rng.usize(n) } as u16;
                let cid = 10_000 + i as u32;
                let e = Edge { cid, target: Target::Node(t), map: rng.pct(50), filter: None };
                if rng.pct(50) {
                    c.nodes[i].reqs.push(vec![e]);
                    let port = (c.nodes[i].reqs.len() - 1) as u8;
                    let k = rng.usize(c.nodes[i].on.len());
                    let kind = rng.below(c.nodes[i].on.len() as u64) as u8;
                    c.nodes[i].on[k].push(Op::Query { port, kind });
                } else {
                    c.nodes[i].outs.push(vec![e.clone(), Edge { cid: cid + 500, ..e }]);
                    let port = (c.nodes[i].outs.len() - 1) as u8;
                    let k = rng.usize(c.nodes[i].on.len());
                    let kind = rng.below(c.nodes[i].on.len() as u64) as u8;
                    c.nodes[i].on[k].push(Op::Send { port, kind });
                    c.nodes[i].on[k].push(Op::Send { port, kind });
                }
            }
        }
        // Fault O: orphan mailboxes.
        if rng.pct(35) {
            let i = rng.usize(n);
            c.nodes[i].registered = false;
        }
    }
    c.script = gen::gen_flow_script(rng, &c, &o, 3);
    c.profile = "stall".into();
    c
}
fn check_c06(case: &Case, out: &Outcome, h: &Hist, _g: &mut Group) -> Vec<Violation> {
    let mut v = oracle::common(case, out, h);
    v.extend(flow::stall_report(case, h));
    v
}
fn nt_c06(_c: &Case, _out: &Outcome, h: &Hist) -> bool {
    h.cmds.iter().any(|c| matches!(c.res, Some(crate::ctx::Res::Deadlock(_)) | Some(crate::ctx::Res::MessageLoss(_))))
}

// ---------------------------------------------------------------- C16
fn gen_c16(rng: &mut Rng, thorough: bool) -> Case {
    let o = BenchOpts {
        min_nodes: 2,
        max_nodes: if thorough { 8 } else { 6 },
        submodels: true,
        caps: vec![1, 1, 2, 3, 16],
        max_threads: if thorough { 8 } else { 4 },
        ..Default::default()
    };
    let mut c = gen::gen_bench(rng, &o);
    // Init-time traffic everywhere.
    let n = c.nodes.len();
    for i in 0..n {
        if c.nodes[i].init.is_empty() && rng.pct(70) {
            let mut ops = Vec::new();
            if !c.nodes[i].outs.is_empty() {
                ops.push(Op::Send { port: rng.usize(c.nodes[i].outs.len()) as u8, kind: rng.below(c.nodes[i].on.len() as u64) as u8 });
            }
            if !c.nodes[i].reqs.is_empty() && rng.pct(50) {
                ops.push(Op::Query { port: rng.usize(c.nodes[i].reqs.len()) as u8, kind: rng.below(c.nodes[i].on.len() as u64) as u8 });
            }
            c.nodes[i].init = ops;
        }
    }
    c.script = gen::gen_flow_script(rng, &c, &o, 2);
    c.profile = "init".into();
    c
}
fn check_c16(case: &Case, out: &Outcome, h: &Hist, _g: &mut Group) -> Vec<Violation> {
    let mut v = oracle::common(case, out, h);
    v.extend(flow::initialisation(case, h));
    v.extend(flow::conservation(case, h));
    v
}
fn nt_c16(c: &Case, _out: &Outcome, h: &Hist) -> bool {
    // some message was sent during init to a model and a sub-model exists
    let init_end = h.cmd(0).and_then(|x| x.end).unwrap_or(0);
    h.sends.iter().any(|s| s.begin < init_end) && c.nodes.iter().any(|n| n.parent.is_some())
}

pub static PROPS: &[PropSpec] = &[
    PropSpec {
        id: "C02",
        gen: gen_c02,
        check: check_c02,
        nontrivial: nt_c02,
        variants: single_variant,
        schedules_quick: 12,
        schedules_thorough: 40,
        cases_quick: 6_000,
        cases_thorough: 120_000,
        rule: "a case is a seeded acyclic bench (3-6 models, capacities 1-16, event/query fan-out, map/filter edges) run on the MT executor; distinct = distinct (scheduler decision sequence, observable history); non-trivial = at least one sender found a mailbox full and >= 4 handler invocations",
    },
    PropSpec {
        id: "C03",
        gen: gen_c03,
        check: check_c03,
        nontrivial: nt_c03,
        variants: single_variant,
        schedules_quick: 10,
        schedules_thorough: 32,
        cases_quick: 7_000,
        cases_thorough: 140_000,
        rule: "a case is a seeded acyclic bench with plain/map/filter_map edges to models and sinks on ST or MT; distinct = distinct (decision sequence, history); non-trivial = a sender had to wait for mailbox space (push found Full) and >= 3 handler invocations",
    },
    PropSpec {
        id: "C04",
        gen: gen_c04,
        check: check_c04,
        nontrivial: nt_c04,
        variants: variants_c04,
        schedules_quick: 6,
        schedules_thorough: 16,
        cases_quick: 2_500,
        cases_thorough: 50_000,
        rule: "a case is a content-only bench executed on ST and on MT(2,3,4[,8,16]) under several schedules each and compared per command; distinct = distinct (decision sequence, history); non-trivial = MT execution in which workers parked more than twice (the idle protocol ran)",
    },
    PropSpec {
        id: "C05",
        gen: gen_c05,
        check: check_c05,
        nontrivial: nt_c05,
        variants: single_variant,
        schedules_quick: 12,
        schedules_thorough: 40,
        cases_quick: 6_000,
        cases_thorough: 120_000,
        rule: "a case is an MT bench whose handlers leak wakers of their task and wake/drop other models' leaked wakers (by value, by reference); distinct = distinct (decision sequence, history); non-trivial = a task was re-polled after a wake during poll or a task was stolen",
    },
    PropSpec {
        id: "C06",
        gen: gen_c06,
        check: check_c06,
        nontrivial: nt_c06,
        variants: single_variant,
        schedules_quick: 10,
        schedules_thorough: 32,
        cases_quick: 7_000,
        cases_thorough: 140_000,
        rule: "a case is a bench with query loops, saturating event loops, orphan mailboxes and sub-models, or a drainable bench (45%); distinct = distinct (decision sequence, history); non-trivial = the run ended in Deadlock or MessageLoss",
    },
    PropSpec {
        id: "C16",
        gen: gen_c16,
        check: check_c16,
        nontrivial: nt_c16,
        variants: single_variant,
        schedules_quick: 10,
        schedules_thorough: 32,
        cases_quick: 7_000,
        cases_thorough: 140_000,
        rule: "a case is a model hierarchy (depth 0-3) whose init programs send events and queries; distinct = distinct (decision sequence, history); non-trivial = init-time traffic and at least one sub-model",
    },
];

pub fn find(id: &str) -> Option<&'static PropSpec> {
    PROPS.iter().find(|p| p.id == id)
}

pub fn level_of(id: &str) -> &'static str {
    match id {
        "C11" | "C18" | "C19" => "fault_enumeration",
        _ => "exploration",
    }
}
