//! Property table: generator profile, schedule budget and oracle per property.

use crate::case::*;
use crate::outcome::Outcome;
use crate::explore::{single_variant, Group, PropSpec};
use crate::gen::{self, BenchOpts};
use crate::hist::Hist;
use crate::oracle::{self, flow, Violation};
use crate::rng::Rng;
use nexosim::verif::Probe;

fn probe(out: &Outcome, p: Probe) -> u64 {
    out.info.as_ref().map(|i| i.probes[p as usize]).unwrap_or(0)
}

// ---------------------------------------------------------------- C02
fn gen_c02(rng: &mut Rng, thorough: bool) -> Case {
    let o = BenchOpts {
        min_nodes: 3,
        max_nodes: if thorough { 6 } else { 5 },
        mt_only: true,
        caps: vec![1, 1, 1, 2, 2, 3, 16],
        sinks: false,
        max_threads: if thorough { 6 } else { 4 },
        ..Default::default()
    };
    let mut c = gen::gen_flow(rng, &o);
    c.profile = "causal".into();
    c
}
fn check_c02(case: &Case, out: &Outcome, h: &Hist, _g: &mut Group) -> Vec<Violation> {
    let mut v = oracle::common(case, out, h);
    v.extend(flow::causal_order(case, h));
    // A message that causally precedes a processed one must have been processed too: on these
    // benches (acyclic, every run completes) nothing may be lost and no command may fail.
    v.extend(flow::conservation(case, h).into_iter().filter(|x| x.rule == "c03_lost_delivery"));
    v.extend(flow::all_ok(h));
    v
}
fn nt_c02(_c: &Case, out: &Outcome, h: &Hist) -> bool {
    // at least one node processed messages from two different senders and a sender blocked on a full mailbox
    probe(out, Probe::PushFull) > 0 && h.handlers.len() >= 4
}

// ---------------------------------------------------------------- C03
fn gen_c03(rng: &mut Rng, thorough: bool) -> Case {
    let o = BenchOpts {
        min_nodes: 2,
        max_nodes: if thorough { 7 } else { 5 },
        sinks: true,
        max_threads: if thorough { 8 } else { 4 },
        ..Default::default()
    };
    // One case in seven: messages that come from the scheduler - bursts of events due at the
    // same time for the same capacity-1 mailbox (the scheduler's senders have to wait for space) -
    // judged by the firing rules: every accepted occurrence delivered exactly once.
    if rng.pct(14) {
        let mut c = gen_c07(rng, thorough);
        for n in c.nodes.iter_mut() {
            n.cap = 1;
        }
        c.profile = "scheduled-conservation".into();
        return c;
    }
    // One case in sixteen: port clones held by different models that gain connections while the
    // simulation runs (the C14 bench: connect through one clone, send through another).
    if rng.pct(6) {
        for _ in 0..8 {
            let mut c = gen_c14(rng, thorough);
            if c.comp.is_none() {
                c.profile = "conservation-clones".into();
                return c;
            }
        }
    }
    let mut c = gen::gen_flow(rng, &o);
    c.profile = "conservation".into();
    // One case in sixteen: the mailbox of a connected recipient was dropped. Then a run must not
    // complete successfully with the event unprocessed: either it fails (`NoRecipient`, judged by
    // C11) or - the property read literally - every connected recipient processed the event.
    if rng.pct(6) {
        let targets: Vec<usize> = (0..c.nodes.len()).filter(|&i| c.nodes.iter().any(|n| n.outs.iter().flatten().any(|e| e.target == Target::Node(i as u16)))).collect();
        if !targets.is_empty() {
            let i = targets[rng.usize(targets.len())];
            c.nodes[i].dead = true;
            c.profile = "conservation-dropped-recipient".into();
        }
    }
    c
}
fn check_c03(case: &Case, out: &Outcome, h: &Hist, _g: &mut Group) -> Vec<Violation> {
    let mut v = oracle::common(case, out, h);
    if case.profile.starts_with("scheduled-conservation") {
        let ag = agenda::build(case, h);
        v.extend(time::periodic(case, h, &ag));
        return v;
    }
    v.extend(flow::conservation(case, h));
    if !case.nodes.iter().any(|n| n.dead) {
        v.extend(flow::all_ok(h));
    }
    v
}
fn nt_c03(c: &Case, out: &Outcome, h: &Hist) -> bool {
    if c.profile.starts_with("scheduled-conservation") {
        return probe(out, Probe::PushFull) > 0 && probe(out, Probe::SeqActions) > 0;
    }
    probe(out, Probe::PushFull) > 0 && h.handlers.len() >= 3
}

// ---------------------------------------------------------------- C04
/// One hub whose output is connected to 260-330 (or 420-560) leaf models: a single send wakes more tasks
/// than a worker's local queue holds (256), so the overflow to the injector queue, the bucket
/// hand-over and the "last worker re-checks the injector" path of the idle protocol run.
fn gen_fanout_bench(rng: &mut Rng) -> Case {
    let o = BenchOpts { min_nodes: 1, max_nodes: 1, queries: false, sources: false, init_ops: false, max_kinds: 1, max_ops: 0, ..Default::default() };
    let mut c = gen::gen_bench(rng, &o);
    // 40 %: enough leaves for the local queue (256 slots, half of it moved out per overflow) to
    // overflow twice, so that a bucket is pushed while another worker pops the previous one.
    let leaves = if rng.pct(40) { rng.range(420, 560) } else { rng.range(260, 330) } as usize;
    c.nodes.clear();
    let port: Vec<Edge> = (0..leaves).map(|i| Edge { cid: 60_000 + i as u32, target: Target::Node((i + 1) as u16), map: i % 7 == 0, filter: None }).collect();
    c.nodes.push(NodeSpec { name: "hub".into(), parent: None, cap: 16, registered: true, dead: false, outs: vec![port], reqs: vec![], init: vec![], on: vec![vec![Op::Send { port: 0, kind: 0 }]], panic_at: None, late_mailbox: false, reply_take: None, sync_inputs: false });
    for i in 0..leaves {
        c.nodes.push(NodeSpec { name: format!("leaf{}", i), parent: None, cap: *rng.pick(&[1u8, 2, 16]), registered: true, dead: false, outs: vec![], reqs: vec![], init: vec![], on: vec![vec![]], panic_at: None, late_mailbox: false, reply_take: None, sync_inputs: false });
    }
    c.cfg.threads = rng.range(2, 4) as u8;
    c.script = vec![Cmd::ProcessEvent { target: 0, kind: 0 }];
    if rng.pct(50) {
        c.script.push(Cmd::ProcessEvent { target: 0, kind: 0 });
    }
    c.profile = "content-only-fanout".into();
    c
}

fn gen_c04(rng: &mut Rng, thorough: bool) -> Case {
    if rng.below(1000) < (if thorough { 8 } else { 12 }) {
        return gen_fanout_bench(rng);
    }
    let burst = rng.pct(if thorough { 6 } else { 3 });
    let o = BenchOpts {
        min_nodes: 2,
        max_nodes: if thorough { 7 } else { 5 },
        sinks: true,
        max_volume: if burst { 700 } else { 64 },
        max_ops: if burst { 4 } else { 3 },
        ..Default::default()
    };
    let mut c = gen::gen_flow(rng, &o);
    c.profile = "content-only".into();
    c
}
fn variants_c04(c: &Case, thorough: bool) -> Vec<Case> {
    let mut v = Vec::new();
    let threads: &[u8] = if thorough { &[1, 2, 3, 4, 8, 16] } else { &[1, 2, 3, 4] };
    for t in threads {
        let mut x = c.clone();
        x.cfg.threads = *t;
        v.push(x);
    }
    v
}
fn check_c04(case: &Case, out: &Outcome, h: &Hist, g: &mut Group) -> Vec<Violation> {
    let mut v = oracle::common(case, out, h);
    v.extend(flow::quiescence(case, h));
    v.extend(flow::all_ok(h));
    v.extend(flow::conservation(case, h).into_iter().filter(|x| x.rule == "c03_lost_delivery"));
    if out.failure.is_none() && v.is_empty() {
        let ms = format!("{:?}", flow::content_multiset(h));
        match &g.reference {
            None => {
                g.reference = Some(ms);
                g.reference_desc = format!("threads={}", case.cfg.threads);
            }
            Some(r) => {
                if *r != ms {
                    v.push(Violation::new(
                        "c04_executor_divergence",
                        format!("per-command multiset of handler invocations and sink writes with threads={} differs from the reference ({}):\n  ref: {}\n  got: {}", case.cfg.threads, g.reference_desc, r, ms),
                    ));
                }
            }
        }
    }
    v
}
fn nt_c04(c: &Case, out: &Outcome, _h: &Hist) -> bool {
    c.cfg.threads > 1 && probe(out, Probe::WorkerParks) + probe(out, Probe::LastWorkerParks) > 2
}

// ---------------------------------------------------------------- C05
fn gen_c05(rng: &mut Rng, thorough: bool) -> Case {
    let o = BenchOpts {
        min_nodes: 3,
        max_nodes: if thorough { 6 } else { 5 },
        mt_only: true,
        caps: vec![1, 1, 2, 2, 4, 16],
        max_threads: if thorough { 8 } else { 4 },
        ..Default::default()
    };
    let mut c = gen::gen_flow(rng, &o);
    // Fault W: leak wakers of model tasks and wake them from other models' handlers.
    for n in c.nodes.iter_mut() {
        for ops in n.on.iter_mut() {
            if rng.pct(45) {
                let pos = rng.usize(ops.len() + 1);
                ops.insert(pos, Op::LeakWaker);
            }
            if rng.pct(55) {
                let pos = rng.usize(ops.len() + 1);
                ops.insert(pos, Op::ChaosWake { how: rng.below(3) as u8 });
            }
        }
    }
    // A third of the cases: two cancellable (keyed) events that a model schedules on itself for
    // the same time; their handler first cancels the first key - its own, half-way through - and
    // then goes on with its sends (to small mailboxes: it suspends) while the other event waits
    // in the mailbox.
    if rng.pct(33) {
        let n = c.nodes.len();
        let cands: Vec<usize> = (0..n).filter(|&i| !c.nodes[i].on.is_empty() && !c.nodes[i].outs.is_empty()).collect();
        if !cands.is_empty() {
            let i = cands[rng.usize(cands.len())];
            let k = rng.usize(c.nodes[i].on.len());
            let unit = 1_000_000_007u64;
            for slot in 0..2u8 {
                let mode = if rng.pct(50) { Mode::Keyed(slot) } else { Mode::KeyedPeriodic(slot, unit) };
                c.nodes[i].init.push(Op::Sched { kind: k as u8, when: When::Rel(unit), mode });
            }
            c.nodes[i].on[k].insert(0, Op::Cancel { slot: 0, how: rng.below(2) as u8 });
            if !c.nodes[i].on[k].iter().any(|o| matches!(o, Op::Send { .. })) {
                c.nodes[i].on[k].push(Op::Send { port: 0, kind: k as u8 });
            }
            c.script.push(Cmd::Step);
            c.script.push(Cmd::Step);
        }
    }
    c.profile = "isolation".into();
    c
}
fn check_c05(case: &Case, out: &Outcome, h: &Hist, _g: &mut Group) -> Vec<Violation> {
    let mut v = oracle::common(case, out, h);
    v.extend(flow::isolation(case, h));
    v
}
fn nt_c05(_c: &Case, out: &Outcome, _h: &Hist) -> bool {
    probe(out, Probe::RepollAfterWake) > 0 || probe(out, Probe::StealSuccess) > 0
}

// ---------------------------------------------------------------- C06
/// Profile *stall*: query loops, saturating event loops, orphan mailboxes,
/// sub-models; equally weighted with drainable benches.
fn gen_c06(rng: &mut Rng, thorough: bool) -> Case {
    let drainable = rng.pct(45);
    let o = BenchOpts {
        min_nodes: 1,
        max_nodes: if thorough { 6 } else { 4 },
        acyclic: drainable,
        submodels: true,
        caps: if drainable { vec![1, 2, 3, 5, 16] } else { vec![1, 1, 2, 2, 3, 4, 5] },
        filters: rng.pct(50),
        max_volume: 48,
        max_threads: if thorough { 8 } else { 4 },
        ..Default::default()
    };
    let mut c = gen::gen_bench(rng, &o);
    if !drainable {
        // Make loops likely: self-queries and back edges.
        let n = c.nodes.len();
        for i in 0..n {
            if rng.pct(35) {
                let t = if rng.pct(50) { i } else { rng.usize(n) } as u16;
                let cid = 10_000 + i as u32;
                let e = Edge { cid, target: Target::Node(t), map: rng.pct(50), filter: None };
                if rng.pct(50) {
                    c.nodes[i].reqs.push(vec![e]);
                    let port = (c.nodes[i].reqs.len() - 1) as u8;
                    let k = rng.usize(c.nodes[i].on.len());
                    let kind = rng.below(c.nodes[i].on.len() as u64) as u8;
                    c.nodes[i].on[k].push(Op::Query { port, kind });
                } else {
                    c.nodes[i].outs.push(vec![e.clone(), Edge { cid: cid + 500, ..e }]);
                    let port = (c.nodes[i].outs.len() - 1) as u8;
                    let k = rng.usize(c.nodes[i].on.len());
                    let kind = rng.below(c.nodes[i].on.len() as u64) as u8;
                    c.nodes[i].on[k].push(Op::Send { port, kind });
                    c.nodes[i].on[k].push(Op::Send { port, kind });
                }
            }
        }
        // Fault O: orphan mailboxes.
        if rng.pct(35) {
            let i = rng.usize(n);
            c.nodes[i].registered = false;
        }
    }
    c.script = gen::gen_flow_script(rng, &c, &o, 3);
    // Fault R without a fatal error: an isolated mailbox that was dropped before init is the
    // target of direct `process_event` calls, whose send error is ignored by design: nothing was
    // sent, so no loss may be reported.
    if rng.pct(20) {
        let kinds = c.nodes[0].on.len();
        c.nodes.push(NodeSpec { name: format!("gone{}", c.nodes.len()), parent: None, cap: 1, registered: true, dead: true, outs: vec![], reqs: vec![], init: vec![], on: vec![vec![]; kinds], panic_at: None, late_mailbox: false, reply_take: None, sync_inputs: false });
        let t = (c.nodes.len() - 1) as u16;
        let pos = rng.usize(c.script.len() + 1);
        c.script.insert(pos, Cmd::ProcessEvent { target: t, kind: 0 });
    }
    c.profile = "stall".into();
    c
}
fn check_c06(case: &Case, out: &Outcome, h: &Hist, _g: &mut Group) -> Vec<Violation> {
    let mut v = oracle::common(case, out, h);
    v.extend(flow::stall_report(case, h));
    v
}
fn nt_c06(_c: &Case, _out: &Outcome, h: &Hist) -> bool {
    h.cmds.iter().any(|c| matches!(c.res, Some(crate::ctx::Res::Deadlock(_)) | Some(crate::ctx::Res::MessageLoss(_))))
}

// ---------------------------------------------------------------- C16
/// A bench with more models than one injector bucket holds (128): every model task sits in the
/// injector queue when `SimInit::init` starts the executor.
fn gen_big_bench(rng: &mut Rng) -> Case {
    let o = BenchOpts { min_nodes: 1, max_nodes: 1, queries: false, sources: false, init_ops: false, max_kinds: 1, max_ops: 0, ..Default::default() };
    let mut c = gen::gen_bench(rng, &o);
    let n = rng.range(129, 180) as usize;
    let hier = rng.pct(40);
    c.nodes.clear();
    for i in 0..n {
        let parent = if hier && i % 10 != 0 { Some((i - i % 10) as u16) } else { None };
        // a few init-time pings to the next model (kept and processed after its own init)
        let outs = if i + 1 < n && rng.pct(25) { vec![vec![Edge { cid: 50_000 + i as u32, target: Target::Node((i + 1) as u16), map: rng.pct(50), filter: None }]] } else { vec![] };
        let init = if !outs.is_empty() && rng.pct(60) { vec![Op::Send { port: 0, kind: 0 }] } else { vec![] };
        c.nodes.push(NodeSpec { name: format!("m{}", i), parent, cap: 16, registered: true, dead: false, outs, reqs: vec![], init, on: vec![vec![]], panic_at: None, late_mailbox: false, reply_take: None, sync_inputs: false });
    }
    c.cfg.threads = rng.range(2, 4) as u8;
    c.script = vec![Cmd::ProcessEvent { target: rng.usize(n) as u16, kind: 0 }, Cmd::ProcessEvent { target: (n - 1) as u16, kind: 0 }];
    c.profile = "init-big".into();
    c
}

/// 520-600 models and, added last, a hub whose `init` broadcasts to all of them: messages sent
/// during init to models that are already initialised, more of them than a worker's local queue
/// holds.
fn gen_init_fanout(rng: &mut Rng) -> Case {
    let mut c = gen_fanout_bench(rng);
    let leaves = rng.range(520, 600) as usize;
    let hub_idx = leaves as u16;
    let mut nodes: Vec<NodeSpec> = (0..leaves)
        .map(|i| NodeSpec { name: format!("leaf{}", i), parent: None, cap: *rng.pick(&[1u8, 2, 16]), registered: true, dead: false, outs: vec![], reqs: vec![], init: vec![], on: vec![vec![]], panic_at: None, late_mailbox: false, reply_take: None, sync_inputs: false })
        .collect();
    let port: Vec<Edge> = (0..leaves).map(|i| Edge { cid: 60_000 + i as u32, target: Target::Node(i as u16), map: i % 7 == 0, filter: None }).collect();
    nodes.push(NodeSpec { name: "hub".into(), parent: None, cap: 16, registered: true, dead: false, outs: vec![port], reqs: vec![], init: vec![Op::Send { port: 0, kind: 0 }], on: vec![vec![Op::Send { port: 0, kind: 0 }]], panic_at: None, late_mailbox: false, reply_take: None, sync_inputs: false });
    c.nodes = nodes;
    c.cfg.threads = rng.range(2, 4) as u8;
    c.script = vec![Cmd::ProcessEvent { target: hub_idx, kind: 0 }];
    c.profile = "init-fanout".into();
    c
}

fn gen_c16(rng: &mut Rng, thorough: bool) -> Case {
    if rng.below(1000) < (if thorough { 5 } else { 2 }) {
        return gen_big_bench(rng);
    }
    if rng.below(10_000) < 6 {
        return gen_init_fanout(rng);
    }
    let o = BenchOpts {
        min_nodes: 2,
        max_nodes: if thorough { 8 } else { 6 },
        submodels: true,
        caps: vec![1, 1, 2, 3, 16],
        max_threads: if thorough { 8 } else { 4 },
        ..Default::default()
    };
    let mut c = gen::gen_bench(rng, &o);
    // Init-time traffic everywhere.
    let n = c.nodes.len();
    for i in 0..n {
        if c.nodes[i].init.is_empty() && rng.pct(70) {
            let mut ops = Vec::new();
            if !c.nodes[i].outs.is_empty() {
                ops.push(Op::Send { port: rng.usize(c.nodes[i].outs.len()) as u8, kind: rng.below(c.nodes[i].on.len() as u64) as u8 });
            }
            if !c.nodes[i].reqs.is_empty() && rng.pct(50) {
                ops.push(Op::Query { port: rng.usize(c.nodes[i].reqs.len()) as u8, kind: rng.below(c.nodes[i].on.len() as u64) as u8 });
            }
            c.nodes[i].init = ops;
        }
    }
    c.script = gen::gen_flow_script(rng, &c, &o, 2);
    // A sub-model whose mailbox is created inside its parent's `build()` (no address exists before
    // `add_submodel`) and that only hears from its own child, through the address it hands out
    // from its own `build()`; the child's init already sends to it.
    if n >= 3 && rng.pct(20) {
        let x = rng.range(1, n as u64 - 2) as usize;
        let y = rng.range(x as u64 + 1, n as u64 - 1) as usize;
        if c.nodes[x].parent.is_none() {
            c.nodes[x].parent = Some(rng.below(x as u64) as u16);
        }
        c.nodes[y].parent = Some(x as u16);
        // nobody else talks to x
        let xt = Target::Node(x as u16);
        for nd in c.nodes.iter_mut() {
            for port in nd.outs.iter_mut().chain(nd.reqs.iter_mut()) {
                port.retain(|e| e.target != xt);
            }
        }
        for sp in c.sources.iter_mut() {
            sp.edges.retain(|e| e.target != xt);
        }
        for cmd in c.script.iter_mut() {
            match cmd {
                Cmd::ProcessEvent { target, .. } | Cmd::ProcessQuery { target, .. } if *target as usize == x => *target = 0,
                _ => {}
            }
        }
        let kinds = c.nodes[y].on.len().max(1);
        c.nodes[y].outs.push(vec![Edge { cid: 70_000 + y as u32, target: xt, map: rng.pct(50), filter: None }]);
        let port = (c.nodes[y].outs.len() - 1) as u8;
        c.nodes[y].init.push(Op::Send { port, kind: rng.below(kinds as u64) as u8 });
        let k = rng.usize(kinds);
        c.nodes[y].on[k].push(Op::Send { port, kind: rng.below(kinds as u64) as u8 });
        // x only collects (no cycle through the new back edge)
        c.nodes[x].outs.clear();
        c.nodes[x].reqs.clear();
        c.nodes[x].late_mailbox = true;
    }
    // Names in error reports: a model of the hierarchy (preferably one that has a parent or
    // children) panics in init or in a handler, or its mailbox is dropped so that its peers'
    // sends fail.
    let r = rng.below(100);
    if r < 45 {
        let related: Vec<usize> = (0..n).filter(|i| c.nodes[*i].parent.is_some() || c.nodes.iter().any(|x| x.parent == Some(*i as u16))).collect();
        let i = if !related.is_empty() && rng.pct(80) { *rng.pick(&related) } else { rng.usize(n) };
        if r < 35 {
            let at = *rng.pick(&[u32::MAX - 1, 0, 0, 1]);
            c.nodes[i].panic_at = Some((at, rng.below(3) as u8));
        } else {
            c.nodes[i].dead = true;
        }
    }
    c.profile = "init".into();
    c
}
fn check_c16(case: &Case, out: &Outcome, h: &Hist, _g: &mut Group) -> Vec<Violation> {
    let mut v = oracle::common(case, out, h);
    v.extend(flow::initialisation(case, h));
    v.extend(flow::conservation(case, h));
    let ag = agenda::build(case, h);
    // Open known findings of the classification oracle belong to C11 (race F9), not to the naming rule.
    v.extend(fault::classification(case, h, &ag).into_iter().filter(|x| x.key != "secondary_send_error_wins_race_mt"));
    // The large benches are acyclic and fault-free: they cannot stall, every command succeeds.
    if case.profile.starts_with("init-") && !case.nodes.iter().any(|n| n.dead || !n.registered || n.panic_at.is_some()) {
        v.extend(flow::all_ok(h));
    }
    v
}
fn nt_c16(c: &Case, _out: &Outcome, h: &Hist) -> bool {
    // some message was sent during init to a model and a sub-model exists
    let init_end = h.cmd(0).and_then(|x| x.end).unwrap_or(0);
    h.sends.iter().any(|s| s.begin < init_end) && c.nodes.iter().any(|n| n.parent.is_some())
}

// ---------------------------------------------------------------- time profiles
use crate::gen::TimeOpts;
use crate::oracle::{agenda, time};

fn gen_c01(rng: &mut Rng, thorough: bool) -> Case {
    let o = TimeOpts { aux_threads: if rng.pct(30) { 1 } else { 0 }, max_cmds: if thorough { 12 } else { 9 }, ..Default::default() };
    let mut c = gen::gen_time(rng, &o);
    c.profile = "agenda".into();
    c
}
fn check_c01(case: &Case, out: &Outcome, h: &Hist, _g: &mut Group) -> Vec<Violation> {
    let mut v = oracle::common(case, out, h);
    let ag = agenda::build(case, h);
    v.extend(time::chronology(case, h, &ag));
    v.extend(time::reads(case, h, &ag));
    v
}
fn nt_time(_c: &Case, _out: &Outcome, h: &Hist) -> bool {
    h.handlers.iter().filter(|x| x.sid.is_some()).count() >= 2
}

fn gen_c07(rng: &mut Rng, thorough: bool) -> Case {
    let o = TimeOpts { burst_pct: 85, invalid_pct: 2, cancel_pct: 8, max_cmds: if thorough { 14 } else { 10 }, max_nodes: 2, via_action_pct: 20, ..Default::default() };
    let mut c = gen::gen_time(rng, &o);
    // Small mailboxes so that every send of a burst suspends.
    for n in c.nodes.iter_mut() {
        if rng.pct(50) {
            n.cap = 1;
        }
    }
    c.profile = "same-time".into();
    c
}
fn check_c07(case: &Case, out: &Outcome, h: &Hist, _g: &mut Group) -> Vec<Violation> {
    let mut v = oracle::common(case, out, h);
    let ag = agenda::build(case, h);
    v.extend(time::same_time_order(case, h, &ag));
    v
}
fn nt_c07(_c: &Case, out: &Outcome, _h: &Hist) -> bool {
    probe(out, Probe::SeqActions) > 0
}

fn gen_c08(rng: &mut Rng, thorough: bool) -> Case {
    let o = TimeOpts {
        invalid_pct: 22,
        aux_threads: if rng.pct(60) { if thorough { 2 } else { 1 } } else { 0 },
        via_action_pct: 30,
        zero_period_action: true,
        max_cmds: if thorough { 12 } else { 9 },
        ..Default::default()
    };
    let mut c = gen::gen_time(rng, &o);
    c.profile = "validation".into();
    c
}
fn check_c08(case: &Case, out: &Outcome, h: &Hist, _g: &mut Group) -> Vec<Violation> {
    let mut v = oracle::common(case, out, h);
    let ag = agenda::build(case, h);
    v.extend(time::validation(case, h, &ag));
    v
}
fn nt_c08(_c: &Case, _out: &Outcome, h: &Hist) -> bool {
    h.scheds.iter().any(|r| matches!(r.res, Some(crate::ctx::Res::InvalidTime) | Some(crate::ctx::Res::NullPeriod))) && h.scheds.iter().any(|r| matches!(r.res, Some(crate::ctx::Res::Ok)))
}

fn gen_c09(rng: &mut Rng, thorough: bool) -> Case {
    let o = TimeOpts { keyed_pct: 85, cancel_pct: 45, invalid_pct: 2, burst_pct: 50, periodic_pct: 35, max_cmds: if thorough { 14 } else { 10 }, aux_threads: if thorough && rng.pct(20) { 1 } else { 0 }, ..Default::default() };
    let mut c = gen::gen_time(rng, &o);
    c.profile = "cancel".into();
    c
}
fn check_c09(case: &Case, out: &Outcome, h: &Hist, _g: &mut Group) -> Vec<Violation> {
    let mut v = oracle::common(case, out, h);
    let ag = agenda::build(case, h);
    v.extend(time::cancellation(case, h, &ag));
    v
}
fn nt_c09(_c: &Case, _out: &Outcome, h: &Hist) -> bool {
    !h.cancels.is_empty() && h.handlers.iter().any(|x| x.sid.is_some())
}

/// C10: 1-4 periodic series scheduled by the driver, a horizon cut into a
/// random partition of step/step_until calls, optional cancellation at a fixed
/// simulated time. Variants are different partitions of the same agenda.
fn gen_c10(rng: &mut Rng, _thorough: bool) -> Case {
    let o = TimeOpts { max_nodes: 2, model_sched: false, ..Default::default() };
    let mut c = gen::gen_time(rng, &o);
    let units: &[u64] = &[1, 1, 2, 7, 1_000, 999_999_937, 1_000_000_000, 3_600_000_000_000];
    let unit = *rng.pick(units);
    let n = c.nodes.len();
    let kinds = c.nodes[0].on.len().max(1) as u64;
    let mut script = Vec::new();
    let series = rng.range(1, 4);
    for s in 0..series {
        let period = if rng.pct(4) { HUGE_PERIOD + unit * rng.range(1, 4) } else { unit * rng.range(1, 4) };
        let keyed = rng.pct(50);
        let mode = if keyed { Mode::KeyedPeriodic(s as u8, period) } else { Mode::Periodic(period) };
        let when = if rng.pct(50) { When::Abs(unit * rng.range(1, 6)) } else { When::Rel(unit * rng.range(1, 6)) };
        script.push(Cmd::Sched { target: rng.usize(n) as u16, kind: rng.below(kinds) as u8, when, mode, via: Via::Direct });
    }
    // In half of the cases one model schedules a periodic series on itself during `init`, on the
    // same time grid: occurrences of different origins (the global scheduler and that model)
    // coincide, so that a step handles several origins at one time stamp.
    if rng.pct(50) {
        let j = rng.usize(n);
        let period = unit * rng.range(1, 4);
        let mode = if rng.pct(50) { Mode::KeyedPeriodic(3, period) } else { Mode::Periodic(period) };
        c.nodes[j].init.push(Op::Sched { kind: rng.below(kinds) as u8, when: When::Rel(unit * rng.range(1, 6)), mode });
    }
    let horizon = rng.range(6, 30);
    let cancel_at = if rng.pct(50) { Some((rng.range(1, horizon - 1), rng.below(series) as u8)) } else { None };
    c.script = script;
    c.aux.clear();
    c.profile = format!("periodic:unit={};horizon={};cancel={:?}", unit, horizon, cancel_at);
    // The partition is chosen by `variants_c10`.
    c
}
fn parse_c10(profile: &str) -> Option<(u64, u64, Option<(u64, u8)>)> {
    let rest = profile.strip_prefix("periodic:")?;
    let mut unit = 0;
    let mut horizon = 0;
    let mut cancel = None;
    for kv in rest.split(';') {
        let (k, v) = kv.split_once('=')?;
        match k {
            "unit" => unit = v.parse().ok()?,
            "horizon" => horizon = v.parse().ok()?,
            "cancel" => {
                if let Some(inner) = v.strip_prefix("Some((").and_then(|x| x.strip_suffix("))")) {
                    let (a, b) = inner.split_once(", ")?;
                    cancel = Some((a.parse().ok()?, b.parse().ok()?));
                }
            }
            _ => {}
        }
    }
    Some((unit, horizon, cancel))
}
fn variants_c10(c: &Case, thorough: bool) -> Vec<Case> {
    let Some((unit, horizon, cancel)) = parse_c10(&c.profile) else { return vec![c.clone()] };
    let nvar = if thorough { 6 } else { 4 };
    let mut out = Vec::new();
    let mut rng = Rng::new(crate::rng::mix(unit ^ horizon, c.cfg.t0));
    for vi in 0..nvar {
        let mut x = c.clone();
        if vi > 0 && rng.pct(50) {
            x.cfg.threads = if x.cfg.threads <= 1 { 2 } else { 1 };
        }
        let mut script = c.script.clone();
        // segment ends (in units after t0)
        let mut segs: Vec<(u64, u64, bool)> = Vec::new(); // (from, to, steps_allowed)
        match cancel {
            Some((tc, _)) => {
                segs.push((0, tc, false));
                segs.push((tc, horizon, true));
            }
            None => segs.push((0, horizon, true)),
        }
        for (si, (from, to, steps_ok)) in segs.iter().enumerate() {
            if si == 1 {
                if let Some((_, slot)) = cancel {
                    script.push(Cmd::Cancel { slot, how: rng.below(4) as u8 });
                }
            }
            let mut cur = *from;
            while cur < *to {
                let next = if vi == 0 { *to } else { (cur + rng.range(1, (*to - cur).max(1))).min(*to) };
                if *steps_ok && vi > 0 && rng.pct(30) {
                    for _ in 0..rng.range(1, 3) {
                        script.push(Cmd::Step);
                    }
                }
                script.push(Cmd::StepUntil { when: When::Abs(unit * next) });
                cur = next;
            }
        }
        x.script = script;
        out.push(x);
    }
    out
}
fn check_c10(case: &Case, out: &Outcome, h: &Hist, g: &mut Group) -> Vec<Violation> {
    let mut v = oracle::common(case, out, h);
    let ag = agenda::build(case, h);
    v.extend(time::periodic(case, h, &ag));
    if let Some((unit, horizon, _)) = parse_c10(&case.profile) {
        let hz = crate::node::tt_ns(case.cfg.t0 + unit * horizon);
        let log: Vec<Vec<crate::ctx::T>> = time::series_log(h, &ag).into_iter().map(|s| s.into_iter().filter(|t| *t <= hz).collect()).collect();
        let text = format!("{:?}", log);
        if out.failure.is_none() {
            match &g.reference {
                None => {
                    g.reference = Some(text);
                    g.reference_desc = format!("{:?}", case.script);
                }
                Some(r) => {
                    if *r != text {
                        v.push(Violation::new(
                            "c10_partition_dependence",
                            format!("per-series delivery log up to the horizon depends on how time is advanced:\n  script A: {}\n  log A: {}\n  script B: {:?}\n  log B: {}", g.reference_desc, r, case.script, text),
                        ));
                    }
                }
            }
        }
    }
    v
}
fn nt_c10(_c: &Case, _out: &Outcome, h: &Hist) -> bool {
    h.handlers.iter().filter(|x| x.sid.is_some()).count() >= 3
}

fn gen_c18(rng: &mut Rng, thorough: bool) -> Case {
    let o = TimeOpts { clock_lag_pct: 30, invalid_pct: 3, max_cmds: if thorough { 12 } else { 9 }, ..Default::default() };
    // A few cases per thousand: more than one injector bucket (128) of models, each scheduling an
    // event on itself for the same time during `init` - the tasks of `init` and of that time step
    // are all spawned before the executor runs, i.e. before the clock is synchronised.
    if rng.below(1000) < (if thorough { 4 } else { 3 }) {
        let mut c = gen_big_bench(rng);
        let unit = 1_000_000_007u64;
        for n in c.nodes.iter_mut() {
            n.init.push(Op::Sched { kind: 0, when: When::Rel(unit), mode: Mode::Plain });
        }
        c.script = vec![Cmd::Step, Cmd::Step];
        c.profile = "clock-big".into();
        return c;
    }
    let mut c = gen::gen_time(rng, &o);
    c.profile = "clock".into();
    c
}
fn check_c18(case: &Case, out: &Outcome, h: &Hist, _g: &mut Group) -> Vec<Violation> {
    let mut v = oracle::common(case, out, h);
    let ag = agenda::build(case, h);
    v.extend(time::clock_protocol(case, h, &ag));
    v
}
fn nt_c18(_c: &Case, _out: &Outcome, h: &Hist) -> bool {
    h.syncs.iter().any(|s| s.2.is_some()) && h.syncs.len() >= 3
}


// ---------------------------------------------------------------- C11
use crate::oracle::fault;

/// Fault-free base case: a hierarchy with event/query traffic, scheduling from
/// driver and models, and a script mixing every kind of run command. The
/// faults are enumerated by `variants_c11`.
fn gen_c11(rng: &mut Rng, thorough: bool) -> Case {
    let bo = BenchOpts {
        min_nodes: 2,
        max_nodes: if thorough { 5 } else { 4 },
        queries: true,
        submodels: true,
        caps: vec![1, 2, 4, 16],
        max_ops: 2,
        max_volume: 40,
        max_threads: 4,
        ..Default::default()
    };
    let bench = gen::gen_bench(rng, &bo);
    let to = TimeOpts { invalid_pct: 6, cancel_pct: 8, periodic_pct: 20, via_action_pct: 25, max_cmds: if thorough { 10 } else { 8 }, ..Default::default() };
    let mut c = gen::gen_time_on(rng, &to, bench);
    let n = c.nodes.len();
    let kinds = c.nodes[0].on.len().max(1) as u64;
    // Mix in queries and source actions, and make sure follow-up commands exist.
    for cmd in c.script.iter_mut() {
        if let Cmd::ProcessEvent { target, kind } = cmd.clone() {
            let r = rng.below(100);
            if r < 30 {
                *cmd = Cmd::ProcessQuery { target, kind };
            } else if r < 50 && !c.sources.is_empty() {
                *cmd = Cmd::ProcessSource { src: rng.usize(c.sources.len()) as u16, kind, pmode: rng.below(3) as u8 };
            }
        }
    }
    // Follow-up `step_until` ranges use the time scale of the case (the generator ends every
    // script with a relative `step_until`).
    let scale = c.script.iter().rev().find_map(|x| match x { Cmd::StepUntil { when: When::Rel(d) } if *d > 0 => Some(*d), _ => None }).unwrap_or(1);
    for _ in 0..rng.range(1, 3) {
        let cmd = match rng.below(6) {
            0 => Cmd::Step,
            1 => Cmd::StepUntil { when: When::Rel(scale * rng.range(0, 2)) },
            2 => Cmd::ProcessEvent { target: rng.usize(n) as u16, kind: rng.below(kinds) as u8 },
            3 => Cmd::ProcessQuery { target: rng.usize(n) as u16, kind: rng.below(kinds) as u8 },
            4 if !c.sources.is_empty() => Cmd::ProcessSource { src: rng.usize(c.sources.len()) as u16, kind: rng.below(kinds) as u8, pmode: rng.below(3) as u8 },
            _ => Cmd::StepUntil { when: When::Past(1 + rng.below(5)) },
        };
        c.script.push(cmd);
    }
    c.aux.clear();
    c.script.retain(|x| !matches!(x, Cmd::SpawnAux { .. }));
    c.profile = "faults:none".into();
    c
}

/// Fault enumeration: the base case, then one variant per (fault kind,
/// injection point) within the bounds below.
fn variants_c11(c: &Case, thorough: bool) -> Vec<Case> {
    let mut rng = Rng::new(crate::rng::mix(c.cfg.t0, c.nodes.len() as u64 * 977 + c.script.len() as u64));
    let n = c.nodes.len();
    let mut out = vec![c.clone()];
    // P: model panic at init / invocation 0 / 1 / 2 of up to two (three) nodes.
    let mut order: Vec<usize> = (0..n).collect();
    rng.shuffle(&mut order);
    for &i in order.iter().take(if thorough { 3 } else { 2 }) {
        for at in [u32::MAX - 1, 0, 1, 2] {
            let mut x = c.clone();
            x.nodes[i].panic_at = Some((at, rng.below(3) as u8));
            x.profile = format!("faults:P node={} at={}", i, at as i64);
            out.push(x);
        }
    }
    // R: each of up to three mailboxes dropped before init.
    for &i in order.iter().take(3) {
        let mut x = c.clone();
        x.nodes[i].dead = true;
        x.profile = format!("faults:R node={}", i);
        out.push(x);
    }
    // O: orphan mailboxes.
    for &i in order.iter().rev().take(2) {
        let mut x = c.clone();
        x.nodes[i].registered = false;
        x.profile = format!("faults:O node={}", i);
        out.push(x);
    }
    // S: a query loop / a saturating event loop.
    for (j, &i) in order.iter().take(2).enumerate() {
        let mut x = c.clone();
        let cid = 20_000 + i as u32;
        let t = if j == 0 { i } else { rng.usize(n) } as u16;
        let e = Edge { cid, target: Target::Node(t), map: rng.pct(50), filter: None };
        let k = rng.usize(x.nodes[i].on.len());
        let kind = rng.below(x.nodes[i].on.len() as u64) as u8;
        if j == 0 {
            x.nodes[i].reqs.push(vec![e]);
            let port = (x.nodes[i].reqs.len() - 1) as u8;
            x.nodes[i].on[k].push(Op::Query { port, kind });
        } else {
            x.nodes[i].cap = 1;
            x.nodes[t as usize].cap = 1;
            x.nodes[i].outs.push(vec![e.clone(), Edge { cid: cid + 500, ..e }]);
            let port = (x.nodes[i].outs.len() - 1) as u8;
            x.nodes[i].on[k].push(Op::Send { port, kind });
            x.nodes[i].on[k].push(Op::Send { port, kind });
        }
        x.profile = format!("faults:S node={} target={}", i, t);
        out.push(x);
    }
    // T: the step time-out elapses at the b-th blocking wait.
    for b in 0..(if thorough { 8 } else { 5 }) {
        let mut x = c.clone();
        x.cfg.timeout_set = true;
        x.cfg.timeout_at_block = Some(b);
        if b % 2 == 1 {
            x.cfg.threads = if x.cfg.threads <= 1 { 2 } else { 1 };
        }
        // every other variant arms the time-out after `init`, through `Simulation::set_timeout`
        x.cfg.timeout_late = rng.pct(40);
        x.profile = format!("faults:T block={}{}", b, if x.cfg.timeout_late { " late" } else { "" });
        out.push(x);
    }
    // T (overrun): a model keeps the first step after the time-out was armed busy until the
    // timed wait of the executor elapses; the time-out is armed by `SimInit::set_timeout`
    // (the overrunning step is `init`) or by `Simulation::set_timeout` (it is a `process_event`).
    for late in [false, true] {
        let cands: Vec<usize> = (0..n).filter(|&i| c.nodes[i].registered && !c.nodes[i].dead && !c.nodes[i].late_mailbox && c.nodes[i].parent.is_none()).collect();
        if cands.is_empty() {
            break;
        }
        let i = cands[rng.usize(cands.len())];
        let mut x = c.clone();
        x.cfg.timeout_set = true;
        x.cfg.timeout_late = late;
        x.cfg.timeout_at_block = Some(0);
        if rng.pct(50) {
            x.cfg.threads = if x.cfg.threads <= 1 { 2 + rng.below(3) as u8 } else { 1 };
        }
        x.nodes[i].init.insert(0, Op::HoldUntilTimeout);
        for h in x.nodes[i].on.iter_mut() {
            h.insert(0, Op::HoldUntilTimeout);
        }
        if late {
            x.script.insert(0, Cmd::ProcessEvent { target: i as u16, kind: 0 });
        }
        x.profile = format!("faults:T overrun node={}{}", i, if late { " late" } else { "" });
        out.push(x);
    }
    // K: the j-th synchronisation reports a lag above the tolerance.
    for j in 1..(if thorough { 8 } else { 5 }) {
        let mut x = c.clone();
        let lag = 1 + rng.below(1_000_000);
        x.cfg.clock = (0..=j).map(|q| if q == j { Some(lag) } else if rng.pct(25) { Some(lag / 2) } else { None }).collect();
        x.cfg.tolerance = Some(lag / 2 + rng.below(lag - lag / 2));
        x.profile = format!("faults:K sync={}", j);
        out.push(x);
    }
    out
}
fn check_c11(case: &Case, out: &Outcome, h: &Hist, _g: &mut Group) -> Vec<Violation> {
    let mut v = oracle::common(case, out, h);
    let ag = agenda::build(case, h);
    v.extend(fault::classification(case, h, &ag));
    v.extend(fault::terminated_contract(case, h, &ag));
    v
}
fn nt_c11(_c: &Case, _out: &Outcome, h: &Hist) -> bool {
    // a fatal error was reported and at least one further run attempt followed
    match h.first_fatal() {
        Some((idx, _)) => h.cmds.iter().any(|c| c.idx > idx && flow::is_run_cmd(&c.text) && c.end.is_some()),
        None => false,
    }
}


// ---------------------------------------------------------------- C19
/// Base case as for C11 (so that every fault variant exists) with small
/// mailboxes (blocked senders), leaked wakers, optional wake-on-drop handler
/// futures and either drop order of the external handles.
fn gen_c19(rng: &mut Rng, thorough: bool) -> Case {
    let mut c = gen_c11(rng, thorough);
    for n in c.nodes.iter_mut() {
        if rng.pct(60) {
            n.cap = rng.range(1, 2) as u8;
        }
        for ops in n.on.iter_mut() {
            if rng.pct(35) {
                let pos = rng.usize(ops.len() + 1);
                ops.insert(pos, Op::LeakWaker);
            }
            if rng.pct(20) {
                let pos = rng.usize(ops.len() + 1);
                ops.insert(pos, Op::ChaosWake { how: rng.below(3) as u8 });
            }
            // A simulation nested in a handler (its executor is created, run and dropped while
            // the outer executor is polling this model).
            if rng.pct(8) {
                let pos = rng.usize(ops.len() + 1);
                ops.insert(pos, Op::Nested { models: rng.range(1, 9) as u8 });
            }
        }
    }
    c.cfg.wake_on_drop = rng.pct(50);
    c.cfg.drop_handles_first = rng.pct(40);
    c.profile = "drop:none".into();
    c
}
/// Enumerates the drop point: every fault variant of the base case is cut
/// after each command index 0..=n and followed by the drop.
fn variants_c19(c: &Case, thorough: bool) -> Vec<Case> {
    let mut out = Vec::new();
    let faults = variants_c11(c, thorough);
    for (fi, f) in faults.iter().enumerate() {
        // quick tier: every fault variant, but only every other drop index for half of them
        let n = f.script.len();
        for d in 0..=n {
            if !thorough && fi % 2 == 1 && d % 2 == 1 {
                continue;
            }
            let mut x = f.clone();
            x.script.truncate(d);
            x.script.push(Cmd::DropSim);
            x.profile = format!("drop@{} {}", d, f.profile);
            out.push(x);
        }
    }
    out
}
fn check_c19(case: &Case, out: &Outcome, h: &Hist, _g: &mut Group) -> Vec<Violation> {
    let mut v = oracle::common(case, out, h);
    v.extend(flow::drop_rules(case, out, h));
    v.extend(oracle::task_memory(case, out, h));
    v
}
fn nt_c19(_c: &Case, out: &Outcome, h: &Hist) -> bool {
    // the simulation was dropped in a state worth dropping: after a fatal error, with
    // unfinished handlers / queued messages, or with wake-ups issued from destructors
    out.drop_wakes > 0 || h.first_fatal().is_some() || h.handlers.iter().any(|x| x.end.is_none())
}


// ---------------------------------------------------------------- C17
/// Sinks written by 1-3 models through one or several outputs, volumes from 0
/// to several times the capacity per command, read / opened / closed by the
/// driver between commands.
fn gen_c17(rng: &mut Rng, thorough: bool) -> Case {
    let o = BenchOpts {
        min_nodes: 1,
        max_nodes: if thorough { 4 } else { 3 },
        sinks: true,
        queries: false,
        max_volume: 40,
        max_threads: if thorough { 8 } else { 4 },
        ..Default::default()
    };
    let mut c = gen::gen_bench(rng, &o);
    let n = c.nodes.len();
    let n_sinks = c.sinks.len();
    let mut cid = 30_000u32;
    // Dedicated sink ports with bursts of sends.
    for s in 0..n_sinks {
        for _ in 0..rng.range(1, 3) {
            let i = rng.usize(n);
            let mut port = Vec::new();
            for _ in 0..rng.range(1, 2) {
                cid += 1;
                let filter = if rng.pct(25) { Some((2u8, rng.below(2) as u8)) } else { None };
                port.push(Edge { cid, target: Target::Sink(s as u16), map: true, filter });
            }
            c.nodes[i].outs.push(port);
            let p = (c.nodes[i].outs.len() - 1) as u8;
            let kinds = c.nodes[i].on.len();
            let k = rng.usize(kinds);
            for _ in 0..rng.range(1, 4) {
                let pos = rng.usize(c.nodes[i].on[k].len() + 1);
                c.nodes[i].on[k].insert(pos, Op::Send { port: p, kind: rng.below(kinds as u64) as u8 });
            }
        }
    }
    // A third of the benches with two or more models: an output port shared by two models
    // through a clone; the first connects a sink to it while the simulation runs and then tells
    // the second, whose subsequent sends through its clone must reach that sink.
    if n >= 2 && n_sinks >= 1 && rng.pct(33) {
        let (i, j) = (0usize, 1usize);
        cid += 1;
        c.nodes[i].outs.push(vec![Edge { cid, target: Target::Sink(rng.usize(n_sinks) as u16), map: true, filter: None }]);
        let q = (c.nodes[i].outs.len() - 1) as u8;
        c.nodes[j].outs.push(vec![Edge { cid: 0, target: Target::Node(i as u16), map: false, filter: Some((255, q)) }]);
        let pj = (c.nodes[j].outs.len() - 1) as u8;
        cid += 1;
        c.nodes[i].outs.push(vec![Edge { cid, target: Target::Node(j as u16), map: false, filter: None }]);
        let go = (c.nodes[i].outs.len() - 1) as u8;
        let ki = rng.usize(c.nodes[i].on.len());
        let kj = rng.usize(c.nodes[j].on.len());
        cid += 1;
        c.nodes[i].on[ki].push(Op::Connect { port: q, target: 10_000 + rng.usize(n_sinks) as u16, cid });
        c.nodes[i].on[ki].push(Op::Send { port: go, kind: kj as u8 });
        c.nodes[j].on[kj].push(Op::Send { port: pj, kind: 0 });
        if rng.pct(50) {
            c.nodes[i].on[ki].push(Op::Send { port: q, kind: 0 });
        }
    }
    let kinds = c.nodes[0].on.len().max(1) as u64;
    let mut script = Vec::new();
    for _ in 0..rng.range(3, if thorough { 12 } else { 9 }) {
        let r = rng.below(100);
        if r < 50 {
            let cmd = Cmd::ProcessEvent { target: rng.usize(n) as u16, kind: rng.below(kinds) as u8 };
            if gen::cmd_volume(&c, &cmd) <= 60 {
                script.push(cmd);
            }
        } else if r < 85 {
            let sink = rng.usize(n_sinks) as u16;
            let cap = c.sinks[sink as usize].buffer.unwrap_or(1) as u64;
            script.push(Cmd::SinkRead { sink, n: rng.range(0, cap + 2) as u8 });
        } else {
            script.push(Cmd::SinkCtl { sink: rng.usize(n_sinks) as u16, open: rng.pct(60) });
        }
    }
    for s in 0..n_sinks {
        script.push(Cmd::SinkRead { sink: s as u16, n: 12 });
    }
    c.script = script;
    c.profile = "sinks".into();
    c
}
fn check_c17(case: &Case, out: &Outcome, h: &Hist, _g: &mut Group) -> Vec<Violation> {
    let mut v = oracle::common(case, out, h);
    v.extend(oracle::sink::sink_rules(case, h));
    // Which events must reach a sink at all is judged against the connection table (the sink
    // reference model above only sees the writes that actually happened).
    v.extend(flow::conservation(case, h));
    v.extend(flow::all_ok(h));
    v
}
fn nt_c17(c: &Case, _out: &Outcome, h: &Hist) -> bool {
    // some sink received more events than it can hold between two reads, or was closed while written
    let overflow = c.sinks.iter().enumerate().any(|(si, s)| {
        let cap = s.buffer.unwrap_or(1) as usize;
        let mut since = 0usize;
        let mut evs: Vec<(u64, bool)> = h.sink_writes.iter().filter(|w| w.1 as usize == si).map(|w| (w.0, true)).collect();
        evs.extend(h.sink_reads.iter().filter(|r| r.1 as usize == si).map(|r| (r.0, false)));
        evs.sort();
        for (_, is_write) in evs {
            if is_write {
                since += 1;
                if since > cap {
                    return true;
                }
            } else {
                since = 0;
            }
        }
        false
    });
    overflow || (!h.sink_ctl.is_empty() && !h.sink_writes.is_empty())
}


// ---------------------------------------------------------------- C14
/// Requestors with 0-6 repliers (plain / map / filter_map connections, small
/// mailboxes, repliers that query in turn), spurious wake-ups of the
/// requesting task, query sources, and port clones that gain connections at
/// run time.
fn gen_c14(rng: &mut Rng, thorough: bool) -> Case {
    if rng.pct(15) {
        return gen_c14_set(rng);
    }
    let o = BenchOpts {
        min_nodes: 3,
        max_nodes: if thorough { 7 } else { 6 },
        caps: vec![1, 1, 1, 2, 2, 16],
        max_volume: 60,
        max_threads: if thorough { 8 } else { 4 },
        ..Default::default()
    };
    let mut c = gen::gen_bench(rng, &o);
    let n = c.nodes.len();
    let mut cid = 40_000u32;
    // A rich requestor on a low node.
    for _ in 0..rng.range(1, 2) {
        let i = rng.usize(n - 1);
        let k = rng.range(0, 6) as usize;
        let mut port = Vec::new();
        for _ in 0..k {
            cid += 1;
            let t = rng.range(i as u64 + 1, n as u64 - 1) as u16;
            let r = rng.below(100);
            let (map, filter) = if r < 30 { (false, Some((rng.range(2, 3) as u8, rng.below(2) as u8))) } else if r < 65 { (true, None) } else { (false, None) };
            port.push(Edge { cid, target: Target::Node(t), map, filter });
        }
        c.nodes[i].reqs.push(port);
        if rng.pct(25) {
            c.nodes[i].reply_take = Some(rng.below(3) as u8);
        }
        let p = (c.nodes[i].reqs.len() - 1) as u8;
        let kinds = c.nodes[i].on.len();
        for _ in 0..rng.range(1, 3) {
            let kk = rng.usize(kinds);
            let pos = rng.usize(c.nodes[i].on[kk].len() + 1);
            c.nodes[i].on[kk].insert(pos, Op::Query { port: p, kind: rng.below(kinds as u64) as u8 });
        }
    }
    // Fault W on some tasks.
    for nd in c.nodes.iter_mut() {
        for ops in nd.on.iter_mut() {
            if rng.pct(25) {
                let pos = rng.usize(ops.len() + 1);
                ops.insert(pos, Op::LeakWaker);
            }
            if rng.pct(30) {
                let pos = rng.usize(ops.len() + 1);
                ops.insert(pos, Op::ChaosWake { how: rng.below(3) as u8 });
            }
        }
    }
    // Port clones: node j owns a clone of a port of node i < j; node i connects a new
    // recipient to its own handle and then tells j (message causality), j sends through the clone.
    if n >= 3 && rng.pct(60) {
        let i = rng.usize(n - 2);
        let j = rng.range(i as u64 + 1, n as u64 - 2) as usize;
        let use_req = rng.pct(40);
        let t_new = rng.range(j as u64 + 1, n as u64 - 1) as u16;
        cid += 1;
        let kinds = c.nodes[i].on.len();
        let k_go = rng.below(kinds as u64) as u8;
        let k_any = rng.below(kinds as u64) as u8;
        // the shared port on i: targets strictly above j
        let mut shared = Vec::new();
        for _ in 0..rng.range(0, 2) {
            cid += 1;
            shared.push(Edge { cid, target: Target::Node(rng.range(j as u64 + 1, n as u64 - 1) as u16), map: rng.pct(50), filter: None });
        }
        cid += 1;
        let new_cid = cid;
        // a "go" port from i to j
        cid += 1;
        c.nodes[i].outs.push(vec![Edge { cid, target: Target::Node(j as u16), map: true, filter: None }]);
        let go_port = (c.nodes[i].outs.len() - 1) as u8;
        if use_req {
            c.nodes[i].reqs.push(shared);
            let q = (c.nodes[i].reqs.len() - 1) as u8;
            c.nodes[j].reqs.push(vec![Edge { cid: 0, target: Target::Node(i as u16), map: false, filter: Some((255, q)) }]);
            let pj = (c.nodes[j].reqs.len() - 1) as u8;
            let kk = rng.usize(kinds);
            c.nodes[i].on[kk].push(Op::Connect { port: 100 + q, target: t_new, cid: new_cid });
            c.nodes[i].on[kk].push(Op::Send { port: go_port, kind: k_go });
            c.nodes[j].on[k_go as usize].push(Op::Query { port: pj, kind: k_any });
            if rng.pct(50) {
                c.nodes[i].on[kk].push(Op::Query { port: q, kind: k_any });
            }
        } else {
            c.nodes[i].outs.push(shared);
            let q = (c.nodes[i].outs.len() - 1) as u8;
            c.nodes[j].outs.push(vec![Edge { cid: 0, target: Target::Node(i as u16), map: false, filter: Some((255, q)) }]);
            let pj = (c.nodes[j].outs.len() - 1) as u8;
            let kk = rng.usize(kinds);
            c.nodes[i].on[kk].push(Op::Connect { port: q, target: t_new, cid: new_cid });
            c.nodes[i].on[kk].push(Op::Send { port: go_port, kind: k_go });
            c.nodes[j].on[k_go as usize].push(Op::Send { port: pj, kind: k_any });
            if rng.pct(50) {
                c.nodes[i].on[kk].push(Op::Send { port: q, kind: k_any });
            }
        }
    }
    // Query sources with several repliers.
    if rng.pct(60) {
        let fan = rng.range(0, 4) as usize;
        let edges = (0..fan)
            .map(|_| {
                cid += 1;
                let r = rng.below(100);
                let (map, filter) = if r < 30 { (false, Some((2u8, rng.below(2) as u8))) } else if r < 65 { (true, None) } else { (false, None) };
                Edge { cid, target: Target::Node(rng.usize(n) as u16), map, filter }
            })
            .collect();
        c.sources.push(SourceSpec { edges, query: true });
    }
    let mut script = Vec::new();
    let kinds = c.nodes[0].on.len().max(1) as u64;
    let mut tries = 0;
    while script.len() < rng.range(2, 5) as usize && tries < 60 {
        tries += 1;
        let r = rng.below(100);
        let cmd = if r < 45 {
            Cmd::ProcessEvent { target: rng.usize(n) as u16, kind: rng.below(kinds) as u8 }
        } else if r < 70 || c.sources.is_empty() {
            Cmd::ProcessQuery { target: rng.usize(n) as u16, kind: rng.below(kinds) as u8 }
        } else {
            Cmd::ProcessSource { src: rng.usize(c.sources.len()) as u16, kind: rng.below(kinds) as u8, pmode: rng.below(3) as u8 }
        };
        if gen::cmd_volume(&c, &cmd) <= 80 {
            script.push(cmd);
        }
    }
    if script.is_empty() {
        script.push(Cmd::ProcessEvent { target: 0, kind: 0 });
    }
    c.script = script;
    c.profile = "queries".into();
    c
}
/// C14(b): the task set in isolation (15 % of the C14 cases).
fn gen_c14_set(rng: &mut Rng) -> Case {
    let len = rng.range(1, 6) as u8;
    let nthreads = rng.range(1, 3) as usize;
    let mut wakers: Vec<Vec<(u8, bool)>> = vec![Vec::new(); nthreads];
    // every index at least once, some twice
    for i in 0..len {
        let t = rng.usize(nthreads);
        wakers[t].push((i, rng.pct(50)));
        if rng.pct(25) {
            let t2 = rng.usize(nthreads);
            wakers[t2].push((i, rng.pct(50)));
        }
    }
    for w in wakers.iter_mut() {
        rng.shuffle(w);
    }
    let stale = if rng.pct(30) { (0..rng.range(1, 3)).map(|_| rng.below(len as u64) as u8).collect() } else { vec![] };
    let notify_count = rng.range(1, len as u64) as u8;
    comp_case(rng, "taskset", Comp::Set(SetCase { len, wakers, notify_count, stale }))
}

fn check_c14(case: &Case, out: &Outcome, h: &Hist, _g: &mut Group) -> Vec<Violation> {
    if let Some(Comp::Set(t)) = case.comp.as_ref() {
        let mut v = oracle::common(case, out, h);
        if out.failure.is_none() {
            v.extend(ocomp::set_rules(t, &out.log));
        }
        return v;
    }
    let mut v = oracle::common(case, out, h);
    v.extend(flow::query_replies(case, h));
    v.extend(flow::conservation(case, h));
    v.extend(flow::all_ok(h));
    v
}
fn nt_c14(c: &Case, out: &Outcome, h: &Hist) -> bool {
    if c.comp.is_some() {
        // the owner had to wait for a notification at least once
        return out.log.iter().any(|e| matches!(e, Ev::Comp(CompEv::SetPending { .. })));
    }
    let _ = out;
    // a query with at least two replies completed, or a connection was added at run time and used
    h.sends.iter().any(|s| s.query && s.replies.len() >= 2) || !flow::dynamic_connections(h).is_empty()
}


// ---------------------------------------------------------------- component harnesses (C12, C13, C15)
use crate::ctx::{CompEv, Ev, QRes};
use crate::oracle::comp as ocomp;

fn comp_case(rng: &mut Rng, profile: &str, comp: Comp) -> Case {
    let mut cfg = gen::gen_config(rng, &BenchOpts { st_only: true, ..Default::default() });
    cfg.threads = 1;
    Case { profile: profile.into(), cfg, nodes: vec![], sinks: vec![], sources: vec![], script: vec![], aux: vec![], comp: Some(comp) }
}

fn gen_c12(rng: &mut Rng, thorough: bool) -> Case {
    if rng.pct(60) {
        let cap = *rng.pick(&[1u8, 1, 2, 2, 3, 4, 5, 8]);
        let mut next = 100u64;
        let np = rng.range(1, 3) as usize;
        let producers: Vec<Vec<QOp>> = (0..np)
            .map(|_| {
                (0..rng.range(1, if thorough { 5 } else { 4 }))
                    .map(|_| {
                        let r = rng.below(100);
                        if r < 80 {
                            next += 1;
                            QOp::Push(next)
                        } else if r < 88 {
                            QOp::Close
                        } else {
                            QOp::Yield
                        }
                    })
                    .collect()
            })
            .collect();
        let consumer: Vec<QOp> = (0..rng.range(2, if thorough { 10 } else { 8 }))
            .map(|_| {
                let r = rng.below(100);
                if r < 45 {
                    QOp::Pop
                } else if r < 80 {
                    QOp::Release
                } else if r < 86 {
                    QOp::Close
                } else {
                    QOp::Yield
                }
            })
            .collect();
        comp_case(rng, "queue", Comp::Queue(QueueCase { cap, producers, consumer }))
    } else {
        let cap = *rng.pick(&[1u8, 1, 2, 3]);
        let mut next = 500u64;
        let np = rng.range(1, 3) as usize;
        let producers: Vec<Vec<u64>> = (0..np)
            .map(|_| {
                (0..rng.range(1, 4))
                    .map(|_| {
                        next += 1;
                        next
                    })
                    .collect()
            })
            .collect();
        let total: u64 = producers.iter().map(|v| v.len() as u64).sum();
        let close_after = if rng.pct(25) { Some(rng.below(total + 1) as u8) } else { None };
        let sender_close = if close_after.is_none() && rng.pct(20) {
            let p = rng.usize(np);
            Some((p as u8, rng.usize(producers[p].len()) as u8))
        } else {
            None
        };
        let recv_drop = close_after.is_some() && rng.pct(50);
        comp_case(rng, "channel", Comp::Chan(ChanCase { cap, producers, close_after, sender_close, recv_drop }))
    }
}
fn check_c12(case: &Case, out: &Outcome, h: &Hist, _g: &mut Group) -> Vec<Violation> {
    let mut v = oracle::common(case, out, h);
    if out.failure.is_none() {
        match case.comp.as_ref() {
            Some(Comp::Queue(q)) => v.extend(ocomp::queue_rules(q, &out.log)),
            Some(Comp::Chan(c)) => v.extend(ocomp::chan_rules(c, &out.log)),
            _ => {}
        }
    }
    v
}
fn nt_c12(case: &Case, out: &Outcome, _h: &Hist) -> bool {
    match case.comp.as_ref() {
        Some(Comp::Queue(_)) => {
            out.log.iter().any(|e| matches!(e, Ev::Comp(CompEv::QReturn { res: QRes::Full, .. }))) && out.log.iter().any(|e| matches!(e, Ev::Comp(CompEv::QReturn { res: QRes::Val(_), .. })))
        }
        Some(Comp::Chan(_)) => probe(out, Probe::PushFull) > 0 || probe(out, Probe::RecvWaited) > 0,
        _ => false,
    }
}

fn gen_c13(rng: &mut Rng, thorough: bool) -> Case {
    let ready_at = rng.range(1, 4) as u8;
    let nthreads = rng.range(2, 3) as usize;
    let weights: &[(TOp, u64)] = &[
        (TOp::Run, 30),
        (TOp::DropRunnable, 4),
        (TOp::WakeVal, 10),
        (TOp::WakeRef, 14),
        (TOp::CloneWaker, 6),
        (TOp::DropWaker, 8),
        (TOp::Cancel, 6),
        (TOp::DropToken, 4),
        (TOp::PollPromise, 8),
        (TOp::DropPromise, 6),
        (TOp::Yield, 4),
    ];
    let total: u64 = weights.iter().map(|w| w.1).sum();
    let threads: Vec<Vec<TOp>> = (0..nthreads)
        .map(|_| {
            (0..rng.range(2, if thorough { 8 } else { 6 }))
                .map(|_| {
                    let mut r = rng.below(total);
                    for (op, w) in weights {
                        if r < *w {
                            return *op;
                        }
                        r -= *w;
                    }
                    TOp::Yield
                })
                .collect()
        })
        .collect();
    let t = TaskCase { with_promise: rng.pct(65), ready_at, self_wake: rng.pct(30), panic_at: if rng.pct(10) { Some(rng.range(1, ready_at as u64) as u8) } else { None }, threads };
    comp_case(rng, "task", Comp::Task(t))
}
fn check_c13(case: &Case, out: &Outcome, h: &Hist, _g: &mut Group) -> Vec<Violation> {
    let mut v = oracle::common(case, out, h);
    if out.failure.is_none() {
        if let Some(Comp::Task(t)) = case.comp.as_ref() {
            v.extend(ocomp::task_rules(t, &out.log));
        }
        v.extend(oracle::task_memory(case, out, h));
    }
    v
}
fn nt_c13(_case: &Case, out: &Outcome, _h: &Hist) -> bool {
    // at least two polls and a wake-up or cancellation issued between the first poll's begin and the last poll's end
    let polls: Vec<usize> = out.log.iter().enumerate().filter(|(_, e)| matches!(e, Ev::Comp(CompEv::TPollBegin { .. }))).map(|(i, _)| i).collect();
    polls.len() >= 2 && out.log.iter().any(|e| matches!(e, Ev::Comp(CompEv::TOpBegin { op: TOp::WakeVal | TOp::WakeRef | TOp::Cancel | TOp::DropRunnable, .. })))
}

fn gen_c15(rng: &mut Rng, thorough: bool) -> Case {
    // One case out of five is a whole simulation whose handlers and auxiliary threads read the
    // time while it is stepped (rule set `time::reads`); the others exercise the time cell alone.
    if rng.pct(20) {
        let o = TimeOpts { aux_threads: 2, invalid_pct: 3, max_cmds: if thorough { 12 } else { 9 }, ..Default::default() };
        let mut c = gen::gen_time(rng, &o);
        for n in c.nodes.iter_mut() {
            for ops in n.on.iter_mut() {
                if rng.pct(60) {
                    let pos = rng.usize(ops.len() + 1);
                    ops.insert(pos, Op::ReadTime);
                }
            }
        }
        for a in c.aux.iter_mut() {
            for _ in 0..rng.range(1, 4) {
                let pos = rng.usize(a.len() + 1);
                a.insert(pos, AuxCmd::ReadTime);
            }
        }
        c.profile = "time-reads".into();
        return c;
    }
    let writes = rng.range(1, if thorough { 10 } else { 8 }) as u8;
    let nr = rng.range(1, 3) as usize;
    let readers: Vec<Vec<bool>> = (0..nr).map(|_| (0..rng.range(1, 8)).map(|_| rng.pct(55)).collect()).collect();
    let step = *rng.pick(&[(1u32, 1u32), (1, 999_999_937), (3, 400_000_000), (1000, 7)]);
    // a third of the cases lie before the epoch (negative seconds, non-zero nanoseconds), some cross it
    let base = *rng.pick(&[1_000i64, 1_000, 1_000, 0, -3, -5_000, -1_000_000]);
    comp_case(rng, "timecell", Comp::Time(TimeCase { writes, readers, step, base }))
}
fn check_c15(case: &Case, out: &Outcome, h: &Hist, _g: &mut Group) -> Vec<Violation> {
    let mut v = oracle::common(case, out, h);
    if out.failure.is_none() {
        if let Some(Comp::Time(t)) = case.comp.as_ref() {
            v.extend(ocomp::time_rules(t, &out.log));
        }
    }
    if case.comp.is_none() {
        let ag = agenda::build(case, h);
        v.extend(time::reads(case, h, &ag));
    }
    v
}
fn nt_c15(case: &Case, out: &Outcome, h: &Hist) -> bool {
    if case.comp.is_none() {
        // whole simulation: a thread other than the simulation's read the time at least once
        return h.time_reads.iter().any(|(_, a, _)| matches!(a, crate::ctx::Actor::Aux(_)));
    }
    // a read raced with a write: a retry, a failed try_read, or a value newer than the one published to the reader
    probe(out, Probe::SeqlockRetry) > 0 || out.log.iter().any(|e| matches!(e, Ev::Comp(CompEv::TimeRead { idx, published, .. }) if *idx == -2 || *idx > *published as i64))
}

pub static PROPS: &[PropSpec] = &[
    PropSpec {
        id: "C12",
        gen: gen_c12,
        check: check_c12,
        nontrivial: nt_c12,
        variants: single_variant,
        schedules_quick: 24,
        schedules_thorough: 64,
        cases_quick: 180_000,
        cases_thorough: 2_160_000,
        rule: "a case is either a history of <= 14 operations on the real mailbox queue (capacity 1-8, 1-3 producer threads pushing unique values / closing, one consumer popping, holding and releasing borrows / closing) checked for linearizability against a sequential bounded FIFO, or a scenario on the real asynchronous channel (capacity 1-3, 1-3 producers awaiting send, a receiver awaiting recv, close by receiver or by a sender at an arbitrary point); distinct = distinct (decision sequence, history); non-trivial = a push found the queue full and a pop succeeded (queue), a sender or the receiver had to wait (channel)",
    },
    PropSpec {
        id: "C13",
        gen: gen_c13,
        check: check_c13,
        nontrivial: nt_c13,
        variants: single_variant,
        schedules_quick: 24,
        schedules_thorough: 64,
        cases_quick: 240_000,
        cases_thorough: 2_880_000,
        rule: "a case is a script of 4-24 handle operations (run / drop runnable, wake by value / by reference, clone / drop waker, cancel / drop token, poll / drop promise) distributed over 2-3 threads on one task of the real task state machine (spawn or spawn_and_forget; future ready at poll 1-4, optionally waking itself or panicking in poll); distinct = distinct (decision sequence, history); non-trivial = at least two polls and a wake-up or cancellation",
    },
    PropSpec {
        id: "C15",
        gen: gen_c15,
        check: check_c15,
        nontrivial: nt_c15,
        variants: single_variant,
        schedules_quick: 24,
        schedules_thorough: 64,
        cases_quick: 180_000,
        cases_thorough: 2_160_000,
        rule: "80 % of the cases: one writer storing 1-8(10) strictly increasing times (seconds and nanoseconds both change; a third of the series lie before the epoch or cross it) into the real time cell and publishing the index with release/acquire, and 1-3 reader threads doing 1-8 read()/try_read() calls each; 20 %: a whole simulation stepped while its handlers (Context::time) and two auxiliary threads (Scheduler::time) read the time, judged against the trace of time writes; distinct = distinct (decision sequence, history); non-trivial = a read raced with a write (seqlock retry, failed try_read, or a value newer than the published one)",
    },
    PropSpec {
        id: "C14",
        gen: gen_c14,
        check: check_c14,
        nontrivial: nt_c14,
        variants: single_variant,
        schedules_quick: 10,
        schedules_thorough: 32,
        cases_quick: 18_000,
        cases_thorough: 216_000,
        rule: "a case is a bench with requestors of 0-6 repliers (plain / map / filter_map connections, capacity 1-2 mailboxes, repliers that query in turn), leaked wakers woken by other models (spurious polls of the query future), query sources, direct process_query, and output / requestor port clones that gain a connection at run time (connect on one clone, causally later send on another), on ST or MT; distinct = distinct (decision sequence, history); non-trivial = a query with at least two replies completed or a run-time connection was added",
    },
    PropSpec {
        id: "C17",
        gen: gen_c17,
        check: check_c17,
        nontrivial: nt_c17,
        variants: single_variant,
        schedules_quick: 6,
        schedules_thorough: 16,
        cases_quick: 160_000,
        cases_thorough: 1_920_000,
        rule: "a case is a bench whose models write to 1-2 sinks (EventBuffer capacity 1-8 or EventSlot, open or closed initially) through plain / map / filter_map connections, with 0 to several times the capacity written per command, and a driver that reads (0..capacity+2 events), closes and reopens the sinks between commands, on ST (exact reference) or MT (order-insensitive reference); distinct = distinct (decision sequence, history); non-trivial = a sink overflowed between two reads, or was closed/reopened while being written",
    },
    PropSpec {
        id: "C19",
        gen: gen_c19,
        check: check_c19,
        nontrivial: nt_c19,
        variants: variants_c19,
        schedules_quick: 2,
        schedules_thorough: 5,
        cases_quick: 1_600,
        cases_thorough: 24_000,
        rule: "a case is a base bench (hierarchy, small mailboxes, leaked wakers, optional wake-on-drop handler futures, either drop order of simulation and external handles) x every fault variant of C11 (none, panic, dropped/orphan mailbox, query loop, saturating loop, time-out, clock lag) x every drop index 0..=n of the script; distinct = distinct (decision sequence, history); non-trivial = dropped after a fatal error, with an unfinished handler, or with wake-ups issued from destructors during the drop",
    },
    PropSpec {
        id: "C11",
        gen: gen_c11,
        check: check_c11,
        nontrivial: nt_c11,
        variants: variants_c11,
        schedules_quick: 3,
        schedules_thorough: 8,
        cases_quick: 12_000,
        cases_thorough: 144_000,
        rule: "a case is a fault-free base (hierarchy, event/query traffic, driver and model scheduling, every kind of run command) plus one variant per (fault kind, injection point): model panic at init/invocation 0-2 of 2-3 models, 3 dropped mailboxes, 2 orphan mailboxes, a query loop, a saturating loop, step time-out at blocking wait 0-4(7), clock lag above tolerance at synchronisation 1-4(7); distinct = distinct (decision sequence, history); non-trivial = a fatal error was reported and at least one further run attempt followed",
    },
    PropSpec {
        id: "C01",
        gen: gen_c01,
        check: check_c01,
        nontrivial: nt_time,
        variants: single_variant,
        schedules_quick: 6,
        schedules_thorough: 16,
        cases_quick: 60_000,
        cases_thorough: 720_000,
        rule: "a case is a seeded agenda (driver and model scheduling requests of all kinds, ns-to-hour scales, equal deadlines, cancels) driven by step/step_until/process_* on ST or MT; distinct = distinct (decision sequence, history); non-trivial = at least two scheduled actions fired",
    },
    PropSpec {
        id: "C07",
        gen: gen_c07,
        check: check_c07,
        nontrivial: nt_c07,
        variants: single_variant,
        schedules_quick: 8,
        schedules_thorough: 24,
        cases_quick: 40_000,
        cases_thorough: 480_000,
        rule: "a case is a seeded set of same-deadline bursts from the global scheduler and from model contexts (one-shot, keyed, periodic, EventSource actions) on ST or MT; distinct = distinct (decision sequence, history); non-trivial = at least two actions of one origin and time were chained (SeqFuture path)",
    },
    PropSpec {
        id: "C08",
        gen: gen_c08,
        check: check_c08,
        nontrivial: nt_c08,
        variants: single_variant,
        schedules_quick: 8,
        schedules_thorough: 24,
        cases_quick: 50_000,
        cases_thorough: 600_000,
        rule: "a case mixes valid and invalid scheduling requests (past/now deadlines, zero periods, Scheduler::schedule with EventSource actions) from the driver, models and 0-2 concurrent scheduler threads; distinct = distinct (decision sequence, history); non-trivial = at least one request rejected and one accepted",
    },
    PropSpec {
        id: "C09",
        gen: gen_c09,
        check: check_c09,
        nontrivial: nt_c09,
        variants: single_variant,
        schedules_quick: 6,
        schedules_thorough: 16,
        cases_quick: 72_000,
        cases_thorough: 864_000,
        rule: "a case schedules keyed one-shot/periodic events and cancels them (key, clone, auto-key drop) from the driver and from models at arbitrary points; distinct = distinct (decision sequence, history); non-trivial = at least one cancellation and one firing",
    },
    PropSpec {
        id: "C10",
        gen: gen_c10,
        check: check_c10,
        nontrivial: nt_c10,
        variants: variants_c10,
        schedules_quick: 3,
        schedules_thorough: 6,
        cases_quick: 40_000,
        cases_thorough: 480_000,
        rule: "a case is 1-4 periodic series (period 1 ns..hours, commensurable periods) with an optional cancellation, executed under 4-6 different partitions of the horizon into step/step_until calls (and on ST/MT); distinct = distinct (decision sequence, history); non-trivial = at least three periodic occurrences fired",
    },
    PropSpec {
        id: "C18",
        gen: gen_c18,
        check: check_c18,
        nontrivial: nt_c18,
        variants: single_variant,
        schedules_quick: 5,
        schedules_thorough: 12,
        cases_quick: 120_000,
        cases_thorough: 1_440_000,
        rule: "a case is an agenda stepped under a scripted clock (Synchronized / OutOfSync(lag) per call) with tolerance unset / 0 / between lags / huge; every (clock answer index x script) combination is generated from the seed; distinct = distinct (decision sequence, history); non-trivial = at least one OutOfSync answer and three synchronize calls",
    },
    PropSpec {
        id: "C02",
        gen: gen_c02,
        check: check_c02,
        nontrivial: nt_c02,
        variants: single_variant,
        schedules_quick: 12,
        schedules_thorough: 40,
        cases_quick: 60_000,
        cases_thorough: 720_000,
        rule: "a case is a seeded acyclic bench (3-6 models, capacities 1-16, event/query fan-out, map/filter edges) run on the MT executor; distinct = distinct (scheduler decision sequence, observable history); non-trivial = at least one sender found a mailbox full and >= 4 handler invocations",
    },
    PropSpec {
        id: "C03",
        gen: gen_c03,
        check: check_c03,
        nontrivial: nt_c03,
        variants: single_variant,
        schedules_quick: 10,
        schedules_thorough: 32,
        cases_quick: 56_000,
        cases_thorough: 672_000,
        rule: "a case is a seeded acyclic bench with plain/map/filter_map edges to models and sinks on ST or MT; distinct = distinct (decision sequence, history); non-trivial = a sender had to wait for mailbox space (push found Full) and >= 3 handler invocations",
    },
    PropSpec {
        id: "C04",
        gen: gen_c04,
        check: check_c04,
        nontrivial: nt_c04,
        variants: variants_c04,
        schedules_quick: 6,
        schedules_thorough: 16,
        cases_quick: 25_000,
        cases_thorough: 300_000,
        rule: "a case is a content-only bench executed on ST and on MT(2,3,4[,8,16]) under several schedules each and compared per command; distinct = distinct (decision sequence, history); non-trivial = MT execution in which workers parked more than twice (the idle protocol ran)",
    },
    PropSpec {
        id: "C05",
        gen: gen_c05,
        check: check_c05,
        nontrivial: nt_c05,
        variants: single_variant,
        schedules_quick: 12,
        schedules_thorough: 40,
        cases_quick: 36_000,
        cases_thorough: 432_000,
        rule: "a case is an MT bench whose handlers leak wakers of their task and wake/drop other models' leaked wakers (by value, by reference); distinct = distinct (decision sequence, history); non-trivial = a task was re-polled after a wake during poll or a task was stolen",
    },
    PropSpec {
        id: "C06",
        gen: gen_c06,
        check: check_c06,
        nontrivial: nt_c06,
        variants: single_variant,
        schedules_quick: 10,
        schedules_thorough: 32,
        cases_quick: 100_000,
        cases_thorough: 1_200_000,
        rule: "a case is a bench with query loops, saturating event loops, orphan mailboxes and sub-models, or a drainable bench (45%); distinct = distinct (decision sequence, history); non-trivial = the run ended in Deadlock or MessageLoss",
    },
    PropSpec {
        id: "C16",
        gen: gen_c16,
        check: check_c16,
        nontrivial: nt_c16,
        variants: single_variant,
        schedules_quick: 10,
        schedules_thorough: 32,
        cases_quick: 56_000,
        cases_thorough: 672_000,
        rule: "a case is a model hierarchy (depth 0-3) whose init programs send events and queries; distinct = distinct (decision sequence, history); non-trivial = init-time traffic and at least one sub-model",
    },
];

pub fn find(id: &str) -> Option<&'static PropSpec> {
    PROPS.iter().find(|p| p.id == id)
}

pub fn level_of(id: &str) -> &'static str {
    match id {
        "C11" | "C18" | "C19" => "fault_enumeration",
        _ => "exploration",
    }
}
