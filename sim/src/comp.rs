//! Component harnesses on the crate-private primitives exported by
//! `nexosim::verif::exports` (the real code, not models of it): the mailbox
//! queue and the asynchronous channel (C12), the task state machine (C13) and
//! the simulation time cell (C15). The same code runs on simulated threads
//! (E1) and on real threads under Miri (E2).

use std::collections::VecDeque;
use std::future::Future;
use std::pin::Pin;
use std::sync::atomic::{AtomicBool, AtomicI64, AtomicU64, Ordering};
use std::sync::{Arc, Mutex};
use std::task::{Context, Poll, Waker};
use std::time::Duration;

use nexosim::time::MonotonicTime;
use nexosim::verif::exports as nx;

use crate::case::*;
use crate::ctx::{CompEv, Ev, ExecCtx, QRes};
use crate::driver::RunInfo;
use crate::rt;

pub fn run_comp(case: &Arc<Case>, ctx: &Arc<ExecCtx>) -> RunInfo {
    nexosim::verif::install(nexosim::verif::Hooks::new());
    match case.comp.as_ref().expect("component case") {
        Comp::Queue(q) => run_queue(q, ctx),
        Comp::Chan(c) => run_chan(c, ctx),
        Comp::Task(t) => run_task(t, ctx),
        Comp::Time(t) => run_time(t, ctx),
        Comp::Set(t) => run_set(t, ctx),
    }
    let probes = nexosim::verif::uninstall();
    RunInfo { probes, completed: true }
}

// ------------------------------------------------------------------ C12: raw queue

fn run_queue(q: &QueueCase, ctx: &Arc<ExecCtx>) {
    let queue = Arc::new(nx::VQueue::new(q.cap.max(1) as usize));
    let mut handles = Vec::new();
    for (pi, ops) in q.producers.iter().enumerate() {
        let queue = queue.clone();
        let ctx = ctx.clone();
        let ops = ops.clone();
        let th = (pi + 1) as u8;
        handles.push(rt::spawn(move || {
            for op in ops {
                match op {
                    QOp::Push(v) => {
                        ctx.log(Ev::Comp(CompEv::QInvoke { thread: th, op }));
                        let r = match queue.push(v) {
                            Ok(()) => QRes::Ok,
                            Err(nx::VPushError::Full) => QRes::Full,
                            Err(nx::VPushError::Closed) => QRes::Closed,
                        };
                        ctx.log(Ev::Comp(CompEv::QReturn { thread: th, op, res: r }));
                    }
                    QOp::Close => {
                        ctx.log(Ev::Comp(CompEv::QInvoke { thread: th, op }));
                        queue.close();
                        ctx.log(Ev::Comp(CompEv::QReturn { thread: th, op, res: QRes::Ok }));
                    }
                    QOp::Yield => rt::yield_now(),
                    _ => {}
                }
            }
        }));
    }
    // The consumer is this thread.
    {
        let mut held: Option<nx::VBorrow<'_>> = None;
        for op in q.consumer.iter().copied() {
            match op {
                QOp::Pop => {
                    if held.is_some() {
                        continue;
                    }
                    ctx.log(Ev::Comp(CompEv::QInvoke { thread: 0, op }));
                    // SAFETY: this is the only thread that pops.
                    let r = match unsafe { queue.pop() } {
                        Ok(b) => {
                            let v = b.value();
                            held = Some(b);
                            QRes::Val(v)
                        }
                        Err(nx::VPopError::Empty) => QRes::Empty,
                        Err(nx::VPopError::Closed) => QRes::Closed,
                    };
                    ctx.log(Ev::Comp(CompEv::QReturn { thread: 0, op, res: r }));
                }
                QOp::Release => {
                    if held.is_some() {
                        ctx.log(Ev::Comp(CompEv::QInvoke { thread: 0, op }));
                        held = None;
                        ctx.log(Ev::Comp(CompEv::QReturn { thread: 0, op, res: QRes::Ok }));
                    }
                }
                QOp::Close => {
                    ctx.log(Ev::Comp(CompEv::QInvoke { thread: 0, op }));
                    queue.close();
                    ctx.log(Ev::Comp(CompEv::QReturn { thread: 0, op, res: QRes::Ok }));
                }
                QOp::Yield => rt::yield_now(),
                QOp::Push(_) => {}
            }
        }
        for h in handles {
            let _ = h.join();
        }
        // Quiescence: no operation in flight.
        let len = queue.len();
        ctx.log(Ev::Comp(CompEv::QLenFinal { len, held: held.is_some() }));
        if held.is_some() {
            ctx.log(Ev::Comp(CompEv::QInvoke { thread: 0, op: QOp::Release }));
            held = None;
            ctx.log(Ev::Comp(CompEv::QReturn { thread: 0, op: QOp::Release, res: QRes::Ok }));
        }
        drop(held);
        // Drain what is left (part of the history: the final content must be explained too).
        let mut rest = Vec::new();
        loop {
            ctx.log(Ev::Comp(CompEv::QInvoke { thread: 0, op: QOp::Pop }));
            // SAFETY: single consumer.
            match unsafe { queue.pop() } {
                Ok(b) => {
                    let v = b.value();
                    ctx.log(Ev::Comp(CompEv::QReturn { thread: 0, op: QOp::Pop, res: QRes::Val(v) }));
                    rest.push(v);
                    ctx.log(Ev::Comp(CompEv::QInvoke { thread: 0, op: QOp::Release }));
                    drop(b);
                    ctx.log(Ev::Comp(CompEv::QReturn { thread: 0, op: QOp::Release, res: QRes::Ok }));
                }
                Err(e) => {
                    let r = if matches!(e, nx::VPopError::Closed) { QRes::Closed } else { QRes::Empty };
                    ctx.log(Ev::Comp(CompEv::QReturn { thread: 0, op: QOp::Pop, res: r }));
                    break;
                }
            }
        }
        ctx.log(Ev::Comp(CompEv::QDrained { rest }));
    }
}

// ------------------------------------------------------------------ C12: asynchronous channel

fn run_chan(c: &ChanCase, ctx: &Arc<ExecCtx>) {
    let (tx, rx) = nx::vchannel(c.cap.max(1) as usize);
    let mut rx = Some(rx);
    let mut handles = Vec::new();
    for (pi, vals) in c.producers.iter().enumerate() {
        let tx = tx.clone();
        let ctx = ctx.clone();
        let vals = vals.clone();
        let p = pi as u8;
        let sender_close = c.sender_close;
        handles.push(rt::spawn(move || {
            for (k, v) in vals.iter().enumerate() {
                ctx.log(Ev::Comp(CompEv::SendInvoke { p, v: *v }));
                let ok = rt::block_on(tx.send(*v)).is_ok();
                ctx.log(Ev::Comp(CompEv::SendReturn { p, v: *v, ok }));
                if sender_close == Some((p, k as u8)) {
                    ctx.log(Ev::Comp(CompEv::CloseInvoke { by_receiver: false }));
                    tx.close();
                    ctx.log(Ev::Comp(CompEv::CloseReturn { by_receiver: false }));
                }
            }
            drop(tx);
        }));
    }
    drop(tx);
    let total: usize = c.producers.iter().map(|v| v.len()).sum();
    let closes = c.close_after.is_some() || c.sender_close.is_some();
    let mut received = 0usize;
    loop {
        if !closes && received == total {
            break;
        }
        if c.close_after == Some(received as u8) {
            ctx.log(Ev::Comp(CompEv::CloseInvoke { by_receiver: true }));
            if c.recv_drop {
                drop(rx.take());
                ctx.log(Ev::Comp(CompEv::CloseReturn { by_receiver: true }));
                break;
            }
            rx.as_mut().unwrap().close();
            ctx.log(Ev::Comp(CompEv::CloseReturn { by_receiver: true }));
        }
        ctx.log(Ev::Comp(CompEv::RecvInvoke));
        match rt::block_on(rx.as_mut().unwrap().recv()) {
            Ok(v) => {
                ctx.log(Ev::Comp(CompEv::RecvReturn { v: Some(v) }));
                received += 1;
            }
            Err(()) => {
                ctx.log(Ev::Comp(CompEv::RecvReturn { v: None }));
                break;
            }
        }
    }
    for h in handles {
        let _ = h.join();
    }
    if let Some(rx) = rx {
        ctx.log(Ev::Comp(CompEv::ChanLenFinal { len: rx.len() }));
        drop(rx);
    }
}

// ------------------------------------------------------------------ C13: task lifecycle

/// Shared observation state of one task scenario (std primitives only: not
/// scheduling points).
pub struct TaskObs {
    ctx: Arc<ExecCtx>,
    polling: AtomicBool,
    polls: AtomicU64,
    completed: AtomicBool,
    future_drops: AtomicU64,
    output_drops: AtomicU64,
    runnables_live: AtomicI64,
    queue: Mutex<VecDeque<nx::VRunnable>>,
    wakers: Mutex<Vec<Waker>>,
}

struct Output {
    obs: Arc<TaskObs>,
    value: u64,
}
impl Drop for Output {
    fn drop(&mut self) {
        self.obs.output_drops.fetch_add(1, Ordering::SeqCst);
        self.obs.ctx.log(Ev::Comp(CompEv::TOutputDropped));
    }
}

struct TestFuture {
    obs: Arc<TaskObs>,
    ready_at: u64,
    self_wake: bool,
    panic_at: Option<u64>,
    done: bool,
}
impl Future for TestFuture {
    type Output = Output;
    fn poll(mut self: Pin<&mut Self>, cx: &mut Context<'_>) -> Poll<Output> {
        let obs = self.obs.clone();
        let overlap = obs.polling.swap(true, Ordering::SeqCst);
        let n = obs.polls.fetch_add(1, Ordering::SeqCst) + 1;
        obs.ctx.log(Ev::Comp(CompEv::TPollBegin { n, overlap, after_done: self.done || obs.completed.load(Ordering::SeqCst), after_drop: obs.future_drops.load(Ordering::SeqCst) > 0 }));
        // Hand a waker to the pool (clone first: it is a scheduling point).
        let w = cx.waker().clone();
        obs.wakers.lock().unwrap().push(w);
        if self.self_wake {
            cx.waker().wake_by_ref();
        }
        if self.panic_at == Some(n) {
            obs.polling.store(false, Ordering::SeqCst);
            obs.ctx.log(Ev::Comp(CompEv::TPollEnd { n, ready: false, panicked: true }));
            panic!("injected-poll-panic");
        }
        let ready = n >= self.ready_at;
        obs.polling.store(false, Ordering::SeqCst);
        obs.ctx.log(Ev::Comp(CompEv::TPollEnd { n, ready, panicked: false }));
        if ready {
            self.done = true;
            obs.completed.store(true, Ordering::SeqCst);
            Poll::Ready(Output { obs: obs.clone(), value: 4242 })
        } else {
            Poll::Pending
        }
    }
}
impl Drop for TestFuture {
    fn drop(&mut self) {
        self.obs.future_drops.fetch_add(1, Ordering::SeqCst);
        self.obs.ctx.log(Ev::Comp(CompEv::TFutureDropped { while_polling: self.obs.polling.load(Ordering::SeqCst) }));
    }
}

thread_local! {
    /// The observation state of the scenario running on this OS thread (E1:
    /// all simulated threads share the OS thread of their runner).
    static TASK_OBS: std::cell::RefCell<Option<Arc<TaskObs>>> = const { std::cell::RefCell::new(None) };
}
#[cfg(not(feature = "e1"))]
static TASK_OBS_GLOBAL: Mutex<Option<Arc<TaskObs>>> = Mutex::new(None);

fn current_obs() -> Option<Arc<TaskObs>> {
    #[cfg(feature = "e1")]
    {
        TASK_OBS.with(|o| o.borrow().clone())
    }
    #[cfg(not(feature = "e1"))]
    {
        let _ = &TASK_OBS;
        TASK_OBS_GLOBAL.lock().unwrap().clone()
    }
}
fn set_obs(o: Option<Arc<TaskObs>>) {
    #[cfg(feature = "e1")]
    TASK_OBS.with(|c| *c.borrow_mut() = o);
    #[cfg(not(feature = "e1"))]
    {
        *TASK_OBS_GLOBAL.lock().unwrap() = o;
    }
}

/// The scheduling function of the task: pushes the runnable on the run queue.
struct Sched;
impl nx::VSchedule for Sched {
    fn schedule(r: nx::VRunnable, _tag: usize) {
        if let Some(obs) = current_obs() {
            let live = obs.runnables_live.fetch_add(1, Ordering::SeqCst) + 1;
            obs.ctx.log(Ev::Comp(CompEv::TScheduled { live }));
            obs.queue.lock().unwrap().push_back(r);
        }
    }
}

fn run_one(obs: &Arc<TaskObs>, th: u8, run: bool) {
    let r = obs.queue.lock().unwrap().pop_front();
    if let Some(r) = r {
        obs.ctx.log(Ev::Comp(CompEv::TOpBegin { thread: th, op: if run { TOp::Run } else { TOp::DropRunnable } }));
        if run {
            // A panicking future is caught here, as an executor would.
            let res = std::panic::catch_unwind(std::panic::AssertUnwindSafe(|| r.run()));
            if res.is_err() {
                obs.polling.store(false, Ordering::SeqCst);
            }
        } else {
            drop(r);
        }
        obs.runnables_live.fetch_sub(1, Ordering::SeqCst);
        obs.ctx.log(Ev::Comp(CompEv::TOpEnd { thread: th, op: if run { TOp::Run } else { TOp::DropRunnable } }));
    }
}

fn run_task(t: &TaskCase, ctx: &Arc<ExecCtx>) {
    let obs = Arc::new(TaskObs {
        ctx: ctx.clone(),
        polling: AtomicBool::new(false),
        polls: AtomicU64::new(0),
        completed: AtomicBool::new(false),
        future_drops: AtomicU64::new(0),
        output_drops: AtomicU64::new(0),
        runnables_live: AtomicI64::new(1),
        queue: Mutex::new(VecDeque::new()),
        wakers: Mutex::new(Vec::new()),
    });
    set_obs(Some(obs.clone()));
    let fut = TestFuture { obs: obs.clone(), ready_at: t.ready_at.max(1) as u64, self_wake: t.self_wake, panic_at: t.panic_at.map(|x| x as u64), done: false };
    let (promise, runnable, token) = if t.with_promise {
        let (p, r, c) = nx::spawn::<_, Sched>(fut, 7);
        (Some(p), r, c)
    } else {
        let (r, c) = nx::spawn_and_forget::<_, Sched>(fut, 7);
        (None, r, c)
    };
    obs.queue.lock().unwrap().push_back(runnable);
    let promise = Arc::new(Mutex::new(promise));
    let token = Arc::new(Mutex::new(Some(token)));

    let mut handles = Vec::new();
    for (ti, ops) in t.threads.iter().enumerate() {
        let obs = obs.clone();
        let ops = ops.clone();
        let promise = promise.clone();
        let token = token.clone();
        let th = ti as u8;
        let body = move || {
            set_obs_for_thread(&obs);
            for op in ops {
                match op {
                    TOp::Run => run_one(&obs, th, true),
                    TOp::DropRunnable => run_one(&obs, th, false),
                    TOp::WakeVal | TOp::WakeRef | TOp::CloneWaker | TOp::DropWaker => {
                        let w = {
                            let mut p = obs.wakers.lock().unwrap();
                            if p.is_empty() {
                                None
                            } else if matches!(op, TOp::WakeRef | TOp::CloneWaker) {
                                // keep it in the pool: take it out for the call, put it back after
                                Some(p.remove(0))
                            } else {
                                Some(p.remove(0))
                            }
                        };
                        let Some(w) = w else { continue };
                        obs.ctx.log(Ev::Comp(CompEv::TOpBegin { thread: th, op }));
                        match op {
                            TOp::WakeVal => w.wake(),
                            TOp::WakeRef => {
                                w.wake_by_ref();
                                obs.wakers.lock().unwrap().push(w);
                            }
                            TOp::CloneWaker => {
                                let c = w.clone();
                                let mut p = obs.wakers.lock().unwrap();
                                p.push(w);
                                p.push(c);
                            }
                            _ => drop(w),
                        }
                        obs.ctx.log(Ev::Comp(CompEv::TOpEnd { thread: th, op }));
                    }
                    TOp::Cancel | TOp::DropToken => {
                        let tk = token.lock().unwrap().take();
                        if let Some(tk) = tk {
                            obs.ctx.log(Ev::Comp(CompEv::TOpBegin { thread: th, op }));
                            if op == TOp::Cancel {
                                tk.cancel();
                            } else {
                                drop(tk);
                            }
                            obs.ctx.log(Ev::Comp(CompEv::TOpEnd { thread: th, op }));
                        }
                    }
                    TOp::PollPromise => {
                        let p = promise.lock().unwrap().take();
                        if let Some(p) = p {
                            obs.ctx.log(Ev::Comp(CompEv::TOpBegin { thread: th, op }));
                            let st = p.poll();
                            let code = match &st {
                                nx::VStage::Ready(o) => {
                                    if o.value == 4242 { 1 } else { 9 }
                                }
                                nx::VStage::Pending => 0,
                                nx::VStage::Cancelled => 2,
                            };
                            obs.ctx.log(Ev::Comp(CompEv::TPromise { thread: th, stage: code }));
                            drop(st);
                            *promise.lock().unwrap() = Some(p);
                            obs.ctx.log(Ev::Comp(CompEv::TOpEnd { thread: th, op }));
                        }
                    }
                    TOp::DropPromise => {
                        let p = promise.lock().unwrap().take();
                        if let Some(p) = p {
                            obs.ctx.log(Ev::Comp(CompEv::TOpBegin { thread: th, op }));
                            drop(p);
                            obs.ctx.log(Ev::Comp(CompEv::TOpEnd { thread: th, op }));
                        }
                    }
                    TOp::Yield => rt::yield_now(),
                }
            }
        };
        if ti == 0 {
            // thread 0 is the calling thread (runs after the others were spawned)
            handles.push((None, Some(Box::new(body) as Box<dyn FnOnce() + Send>)));
        } else {
            handles.push((Some(rt::spawn(body)), None));
        }
    }
    for (_, b) in handles.iter_mut() {
        if let Some(b) = b.take() {
            b();
        }
    }
    for (h, _) in handles {
        if let Some(h) = h {
            let _ = h.join();
        }
    }
    // Drain: run whatever is scheduled until the run queue stays empty (bounded).
    ctx.log(Ev::Comp(CompEv::TDrainBegin));
    for _ in 0..64 {
        if obs.queue.lock().unwrap().is_empty() {
            break;
        }
        run_one(&obs, 200, true);
    }
    ctx.log(Ev::Comp(CompEv::TDrainEnd { completed: obs.completed.load(Ordering::SeqCst), future_drops: obs.future_drops.load(Ordering::SeqCst) }));
    // Release every remaining handle.
    let p = promise.lock().unwrap().take();
    if let Some(p) = p {
        let st = p.poll();
        let code = match &st {
            nx::VStage::Ready(_) => 1,
            nx::VStage::Pending => 0,
            nx::VStage::Cancelled => 2,
        };
        ctx.log(Ev::Comp(CompEv::TPromise { thread: 200, stage: code }));
        drop(st);
        drop(p);
    }
    let tk = token.lock().unwrap().take();
    drop(tk);
    loop {
        let w = {
            let mut p = obs.wakers.lock().unwrap();
            if p.is_empty() { None } else { Some(p.remove(0)) }
        };
        match w {
            Some(w) => drop(w),
            None => break,
        }
    }
    // Dropping the last waker of a scheduled-but-never-run task cannot happen here: the queue
    // was drained. Whatever is still queued is dropped now.
    loop {
        let r = obs.queue.lock().unwrap().pop_front();
        match r {
            Some(r) => {
                drop(r);
                obs.runnables_live.fetch_sub(1, Ordering::SeqCst);
            }
            None => break,
        }
    }
    ctx.log(Ev::Comp(CompEv::TFinal {
        polls: obs.polls.load(Ordering::SeqCst),
        completed: obs.completed.load(Ordering::SeqCst),
        future_drops: obs.future_drops.load(Ordering::SeqCst),
        output_drops: obs.output_drops.load(Ordering::SeqCst),
        runnables_live: obs.runnables_live.load(Ordering::SeqCst),
    }));
    set_obs(None);
}

fn set_obs_for_thread(_obs: &Arc<TaskObs>) {
    // E1: the thread-local is per OS thread and all simulated threads of the execution share it.
    // E2: the state is global. Nothing to do in either case.
}

// ------------------------------------------------------------------ C15: time cell

pub fn time_value(base: i64, step: (u32, u32), i: u64) -> MonotonicTime {
    // Seconds and nanoseconds both change at every step, so that any mixture of two values is
    // recognisable.
    let secs = base + (i * (step.0.max(1) as u64)) as i64;
    let nanos = (7 + i * (step.1.max(1) as u64)) % 1_000_000_000;
    MonotonicTime::new(secs, nanos as u32).unwrap()
}

pub fn time_index(base: i64, step: (u32, u32), t: MonotonicTime, writes: u64) -> Option<u64> {
    (0..=writes).find(|i| time_value(base, step, *i) == t)
}

fn run_time(t: &TimeCase, ctx: &Arc<ExecCtx>) {
    let cell = Arc::new(nx::VTimeCell::new(time_value(t.base, t.step, 0)));
    let published = Arc::new(rt::sync::AtomicU64::new(0));
    let writes = t.writes as u64;
    let step = t.step;
    let base = t.base;
    let mut handles = Vec::new();
    for (ri, reads) in t.readers.iter().enumerate() {
        let reader = cell.reader();
        let published = published.clone();
        let ctx = ctx.clone();
        let reads = reads.clone();
        let r = ri as u8;
        handles.push(rt::spawn(move || {
            for blocking in reads {
                let p = published.load(rt::sync::Ordering::Acquire);
                let v = if blocking { Some(reader.read()) } else { reader.try_read() };
                let (idx, raw) = match v {
                    Some(t) => (time_index(base, step, t, writes).map(|i| i as i64).unwrap_or(-1), Some((t.as_secs(), t.subsec_nanos()))),
                    None => (-2, None),
                };
                ctx.log(Ev::Comp(CompEv::TimeRead { reader: r, published: p, idx, raw, blocking }));
            }
        }));
    }
    for i in 1..=writes {
        cell.write(time_value(base, step, i));
        published.store(i, rt::sync::Ordering::Release);
        ctx.log(Ev::Comp(CompEv::TimeWritten { idx: i }));
    }
    for h in handles {
        let _ = h.join();
    }
    let last = cell.read();
    ctx.log(Ev::Comp(CompEv::TimeFinal { idx: time_index(base, step, last, writes).map(|i| i as i64).unwrap_or(-1) }));
}

// ------------------------------------------------------------------ C14(b): task set

/// The owner mirrors `BroadcastFuture::poll`: register the waker, take the scheduled sub-tasks,
/// return `Pending` when there are none (a notification is then armed).
struct SetOwner<'a> {
    set: &'a mut nx::VTaskSet,
    ctx: &'a Arc<ExecCtx>,
    seen: Vec<u32>,
    notify: usize,
    polls: u32,
}
impl Future for SetOwner<'_> {
    type Output = u32;
    fn poll(self: Pin<&mut Self>, cx: &mut Context<'_>) -> Poll<u32> {
        let this = self.get_mut();
        this.polls += 1;
        this.set.register(cx.waker());
        loop {
            // A notification may be requested after at most as many wake-ups as are certain to
            // come: every sub-task not seen yet is still going to be woken at least once.
            let unseen = this.seen.iter().filter(|c| **c == 0).count().max(1);
            match this.set.take_scheduled(this.notify.min(unseen)) {
                Some(batch) => {
                    this.ctx.log(Ev::Comp(CompEv::SetBatch { indices: batch.clone(), poll: this.polls }));
                    for i in batch {
                        if i < this.seen.len() {
                            this.seen[i] += 1;
                        }
                    }
                    if this.seen.iter().all(|c| *c > 0) {
                        return Poll::Ready(this.polls);
                    }
                }
                None => {
                    this.ctx.log(Ev::Comp(CompEv::SetPending { poll: this.polls }));
                    return Poll::Pending;
                }
            }
        }
    }
}

fn run_set(t: &SetCase, ctx: &Arc<ExecCtx>) {
    let len = t.len.max(1) as usize;
    let mut set = nx::VTaskSet::new(len);
    // Stale wake-ups from a previous use are discarded first.
    for i in &t.stale {
        set.waker(*i as usize % len).wake();
    }
    set.discard_scheduled();
    let mut handles = Vec::new();
    for (wi, list) in t.wakers.iter().enumerate() {
        let wakers: Vec<(u8, bool, Waker)> = list.iter().map(|(i, v)| (*i, *v, set.waker(*i as usize % len))).collect();
        let ctx = ctx.clone();
        let th = wi as u8;
        handles.push(rt::spawn(move || {
            for (i, by_val, w) in wakers {
                ctx.log(Ev::Comp(CompEv::SetWakeBegin { thread: th, idx: i }));
                if by_val {
                    w.wake();
                } else {
                    w.wake_by_ref();
                }
                ctx.log(Ev::Comp(CompEv::SetWakeEnd { thread: th, idx: i }));
            }
        }));
    }
    let polls = rt::block_on(SetOwner { set: &mut set, ctx, seen: vec![0; len], notify: t.notify_count.max(1) as usize, polls: 0 });
    ctx.log(Ev::Comp(CompEv::SetDone { polls }));
    for h in handles {
        let _ = h.join();
    }
    // Whatever was woken after the owner finished is still scheduled: take it so that it is accounted for.
    if let Some(batch) = set.take_scheduled(0) {
        ctx.log(Ev::Comp(CompEv::SetBatch { indices: batch, poll: u32::MAX }));
    }
}
