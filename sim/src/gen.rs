//! Seeded case generators ("profiles"). A profile restricts the generator to
//! the operations and faults under which a property's oracle is exact; it
//! never relaxes an oracle.

use std::collections::HashMap;

use crate::case::*;
use crate::rng::Rng;

#[derive(Clone, Debug)]
pub struct BenchOpts {
    pub min_nodes: usize,
    pub max_nodes: usize,
    /// Only edges from lower to higher node index (no mailbox cycle possible).
    pub acyclic: bool,
    pub queries: bool,
    pub sinks: bool,
    pub sources: bool,
    pub filters: bool,
    pub submodels: bool,
    pub init_ops: bool,
    /// Capacities are drawn from this list.
    pub caps: Vec<u8>,
    pub max_kinds: u8,
    pub max_ops: usize,
    /// Upper bound on the statically estimated number of handler invocations
    /// per driver command.
    pub max_volume: u64,
    pub mt_only: bool,
    pub st_only: bool,
    pub max_threads: u8,
}

impl Default for BenchOpts {
    fn default() -> Self {
        Self {
            min_nodes: 2,
            max_nodes: 5,
            acyclic: true,
            queries: true,
            sinks: false,
            sources: true,
            filters: true,
            submodels: false,
            init_ops: true,
            caps: vec![1, 1, 2, 2, 3, 4, 5, 8, 16],
            max_kinds: 3,
            max_ops: 3,
            max_volume: 64,
            mt_only: false,
            st_only: false,
            max_threads: 4,
        }
    }
}

pub fn gen_config(rng: &mut Rng, o: &BenchOpts) -> Config {
    let threads = if o.st_only {
        1
    } else if o.mt_only || rng.pct(75) {
        rng.range(2, o.max_threads.max(2) as u64) as u8
    } else {
        1
    };
    // order in which `set_clock`, `set_clock_tolerance` and `set_timeout` are called on `SimInit`
    let t0_order = rng.below(6);
    Config {
        threads,
        chan_mask: rng.below(8) as u8,
        search_rounds: rng.below(4) as u8,
        // A start time with non-zero nanoseconds within ~3 simulated years around the epoch
        // (see `node::EPOCH_OFFSET_NS`); 4 % start a few units before the epoch so that the run
        // crosses it.
        t0: if rng.pct(4) {
            crate::node::EPOCH_OFFSET_NS - *rng.pick(&[1u64, 2, 7, 1_000, 2_999_999_811, 7_200_000_000_000])
        } else {
            rng.below(100_000_000) * 1_000_000_007 % 100_000_000_000_000_000 + rng.below(1_000_000_000)
        },
        clock: vec![],
        tolerance: None,
        timeout_set: false,
        timeout_late: false,
        builder_order: (t0_order % 6) as u8,
        timeout_at_block: None,
        wake_on_drop: false,
        drop_handles_first: false,
    }
}

struct CidGen(u32);
impl CidGen {
    fn next(&mut self) -> u32 {
        self.0 += 1;
        self.0
    }
}

fn gen_edge(rng: &mut Rng, cids: &mut CidGen, target: Target, o: &BenchOpts) -> Edge {
    let cid = cids.next();
    let r = rng.below(100);
    let is_sink = matches!(target, Target::Sink(_));
    if o.filters && r < 25 {
        let m = rng.range(2, 3) as u8;
        Edge { cid, target, map: false, filter: Some((m, rng.below(m as u64) as u8)) }
    } else if r < 55 || is_sink {
        Edge { cid, target, map: true, filter: None }
    } else {
        Edge { cid, target, map: false, filter: None }
    }
}

/// Generates a bench (nodes, sinks, sources) without script.
pub fn gen_bench(rng: &mut Rng, o: &BenchOpts) -> Case {
    let cfg = gen_config(rng, o);
    let n = rng.range(o.min_nodes as u64, o.max_nodes as u64) as usize;
    let kinds = rng.range(1, o.max_kinds as u64) as u8;
    let mut cids = CidGen(0);
    let n_sinks = if o.sinks { rng.range(1, 2) as usize } else { 0 };
    let sinks: Vec<SinkSpec> = (0..n_sinks)
        .map(|_| SinkSpec { buffer: if rng.pct(70) { Some(rng.range(1, 8) as u8) } else { None }, open: rng.pct(85) })
        .collect();

    let mut nodes: Vec<NodeSpec> = Vec::new();
    for i in 0..n {
        let cap = *rng.pick(&o.caps);
        let targets: Vec<u16> = if o.acyclic { ((i + 1)..n).map(|x| x as u16).collect() } else { (0..n).map(|x| x as u16).collect() };
        let mut outs = Vec::new();
        let n_outs = if targets.is_empty() && n_sinks == 0 { 0 } else { rng.range(0, 2) as usize };
        for _ in 0..n_outs {
            let mut port = Vec::new();
            let fan = rng.range(1, 3) as usize;
            for _ in 0..fan {
                let to_sink = n_sinks > 0 && (targets.is_empty() || rng.pct(35));
                let target = if to_sink { Target::Sink(rng.usize(n_sinks) as u16) } else { Target::Node(*rng.pick(&targets)) };
                port.push(gen_edge(rng, &mut cids, target, o));
            }
            outs.push(port);
        }
        let mut reqs = Vec::new();
        // Queries only towards strictly higher nodes when acyclic (a query to
        // oneself or a lower node can complete a cycle).
        let qtargets: Vec<u16> = if o.acyclic { ((i + 1)..n).map(|x| x as u16).collect() } else { targets.clone() };
        if o.queries && !qtargets.is_empty() && rng.pct(50) {
            let mut port = Vec::new();
            let fan = rng.range(1, 3) as usize;
            for _ in 0..fan {
                let t = Target::Node(*rng.pick(&qtargets));
                port.push(gen_edge(rng, &mut cids, t, o));
            }
            reqs.push(port);
        }
        let gen_ops = |rng: &mut Rng, max: usize| -> Vec<Op> {
            let k = rng.range(0, max as u64) as usize;
            (0..k)
                .filter_map(|_| {
                    let choose_q = !reqs.is_empty() && rng.pct(35);
                    if choose_q {
                        Some(Op::Query { port: rng.usize(reqs.len()) as u8, kind: rng.below(kinds as u64) as u8 })
                    } else if !outs.is_empty() {
                        Some(Op::Send { port: rng.usize(outs.len()) as u8, kind: rng.below(kinds as u64) as u8 })
                    } else {
                        None
                    }
                })
                .collect()
        };
        let on: Vec<Vec<Op>> = (0..kinds).map(|_| gen_ops(rng, o.max_ops)).collect();
        let init = if o.init_ops && rng.pct(40) { gen_ops(rng, 2) } else { vec![] };
        nodes.push(NodeSpec {
            name: format!("n{}", i),
            parent: None,
            cap,
            registered: true,
            dead: false,
            outs,
            reqs,
            init,
            on,
            panic_at: None,
            late_mailbox: false,
            reply_take: None,
            sync_inputs: false,
        });
    }
    if o.submodels && n >= 2 {
        // Turn some nodes into sub-models of an earlier node.
        for i in 1..n {
            if rng.pct(45) {
                nodes[i].parent = Some(rng.below(i as u64) as u16);
            }
        }
    }
    let mut sources = Vec::new();
    if o.sources && rng.pct(60) {
        let k = rng.range(1, 2) as usize;
        for _ in 0..k {
            let fan = rng.range(1, 3) as usize;
            let query = o.queries && rng.pct(30);
            let edges = (0..fan)
                .map(|_| {
                    let t = Target::Node(rng.usize(n) as u16);
                    gen_edge(rng, &mut cids, t, o)
                })
                .collect();
            sources.push(SourceSpec { edges, query });
        }
    }
    Case { profile: String::new(), cfg, nodes, sinks, sources, script: vec![], aux: vec![], comp: None }
}

/// Static upper bound on the number of handler invocations triggered by one
/// message of `kind`/`ttl` arriving at `node` (filters ignored, so this is an
/// over-approximation).
pub fn volume(case: &Case, node: usize, kind: u8, ttl: u8, memo: &mut HashMap<(usize, u8, u8), u64>) -> u64 {
    if let Some(v) = memo.get(&(node, kind, ttl)) {
        return *v;
    }
    let mut total: u64 = 1;
    if ttl > 0 {
        if let Some(ops) = case.nodes[node].on.get(kind as usize) {
            for op in ops {
                let (edges, k2) = match op {
                    Op::Send { port, kind } => (case.nodes[node].outs.get(*port as usize), *kind),
                    Op::Query { port, kind } => (case.nodes[node].reqs.get(*port as usize), *kind),
                    _ => (None, 0),
                };
                if let Some(edges) = edges {
                    for e in edges {
                        if let Target::Node(t) = e.target {
                            total = total.saturating_add(volume(case, t as usize, k2, ttl - 1, memo));
                        }
                    }
                }
            }
        }
    }
    memo.insert((node, kind, ttl), total);
    total
}

pub fn cmd_volume(case: &Case, cmd: &Cmd) -> u64 {
    let mut memo = HashMap::new();
    let ttl = crate::driver::DRIVER_TTL;
    match cmd {
        Cmd::ProcessEvent { target, kind } | Cmd::ProcessQuery { target, kind } => volume(case, *target as usize, *kind, ttl, &mut memo),
        Cmd::ProcessSource { src, kind, .. } => case.sources[*src as usize]
            .edges
            .iter()
            .map(|e| match e.target {
                Target::Node(t) => volume(case, t as usize, *kind, ttl, &mut memo),
                _ => 0,
            })
            .sum(),
        Cmd::Sched { target, kind, .. } => volume(case, *target as usize, *kind, ttl, &mut memo),
        _ => 0,
    }
}

/// Message-flow script: immediate events and queries from the driver.
pub fn gen_flow_script(rng: &mut Rng, case: &Case, o: &BenchOpts, max_cmds: usize) -> Vec<Cmd> {
    let n = case.nodes.len();
    let kinds = case.nodes[0].on.len().max(1) as u64;
    let mut script = Vec::new();
    let k = rng.range(1, max_cmds as u64) as usize;
    let mut tries = 0;
    while script.len() < k && tries < 40 {
        tries += 1;
        let r = rng.below(100);
        let cmd = if r < 55 || (case.sources.is_empty() && !o.queries) {
            Cmd::ProcessEvent { target: rng.usize(n) as u16, kind: rng.below(kinds) as u8 }
        } else if r < 75 && o.queries {
            Cmd::ProcessQuery { target: rng.usize(n) as u16, kind: rng.below(kinds) as u8 }
        } else if !case.sources.is_empty() {
            Cmd::ProcessSource { src: rng.usize(case.sources.len()) as u16, kind: rng.below(kinds) as u8, pmode: rng.below(3) as u8 }
        } else {
            Cmd::ProcessEvent { target: rng.usize(n) as u16, kind: rng.below(kinds) as u8 }
        };
        if cmd_volume(case, &cmd) <= o.max_volume {
            script.push(cmd);
        }
    }
    if script.is_empty() {
        script.push(Cmd::ProcessEvent { target: 0, kind: 0 });
    }
    script
}

/// Profile *flow*: acyclic message-passing benches on which every run must
/// complete (`Ok`) whatever the schedule.
pub fn gen_flow(rng: &mut Rng, o: &BenchOpts) -> Case {
    let mut case = gen_bench(rng, o);
    // Bound the init volume as well.
    case.script = gen_flow_script(rng, &case, o, 4);
    case.profile = "flow".into();
    case
}

// ------------------------------------------------------------------------
// Time / scheduling profiles.
// ------------------------------------------------------------------------

#[derive(Clone, Debug)]
pub struct TimeOpts {
    pub max_nodes: usize,
    pub max_cmds: usize,
    /// Probability (percent) of invalid requests (past/now deadline, zero period).
    pub invalid_pct: u64,
    pub cancel_pct: u64,
    pub periodic_pct: u64,
    pub keyed_pct: u64,
    /// Same-deadline bursts.
    pub burst_pct: u64,
    pub model_sched: bool,
    pub via_action_pct: u64,
    /// Fault X: auxiliary scheduler threads.
    pub aux_threads: usize,
    pub st_only: bool,
    pub mt_only: bool,
    pub clock_lag_pct: u64,
    pub zero_period_action: bool,
}

impl Default for TimeOpts {
    fn default() -> Self {
        Self {
            max_nodes: 3,
            max_cmds: 10,
            invalid_pct: 5,
            cancel_pct: 15,
            periodic_pct: 25,
            keyed_pct: 35,
            burst_pct: 30,
            model_sched: true,
            via_action_pct: 15,
            aux_threads: 0,
            st_only: false,
            mt_only: false,
            clock_lag_pct: 0,
            zero_period_action: false,
        }
    }
}

const UNITS: &[u64] = &[1, 1, 3, 1_000, 999_999_937, 1_000_000_000, 1_000_000_007, 3_600_000_000_000];

fn gen_mode(rng: &mut Rng, o: &TimeOpts, unit: u64, slots: u8) -> Mode {
    let periodic = rng.pct(o.periodic_pct);
    let keyed = rng.pct(o.keyed_pct);
    // 3 % of the periods exceed the range of a `u64` nanosecond count (see `case::HUGE_PERIOD`)
    let period = if rng.pct(o.invalid_pct) { 0 } else if rng.pct(3) { crate::case::HUGE_PERIOD + unit * rng.range(1, 4) } else { unit * rng.range(1, 4) };
    match (periodic, keyed) {
        (false, false) => Mode::Plain,
        (false, true) => Mode::Keyed(rng.below(slots as u64) as u8),
        (true, false) => Mode::Periodic(period),
        (true, true) => Mode::KeyedPeriodic(rng.below(slots as u64) as u8, period),
    }
}

fn gen_when(rng: &mut Rng, o: &TimeOpts, unit: u64, now_units: u64, burst_at: Option<u64>) -> When {
    if rng.pct(o.invalid_pct) {
        return match rng.below(3) {
            0 => When::Rel(0),
            1 => When::Past(unit * rng.range(0, 3)),
            _ => When::Abs(unit * rng.below(now_units + 1)),
        };
    }
    if let Some(b) = burst_at {
        if rng.pct(70) {
            return When::Abs(unit * b);
        }
    }
    if rng.pct(50) {
        When::Rel(unit * rng.range(1, 6))
    } else {
        When::Abs(unit * (now_units + rng.range(1, 6)))
    }
}

/// Generates a scheduling-centred case. All delays, periods and step ranges
/// are small multiples of one time unit drawn per case (1 ns ... 1 h), so the
/// number of occurrences within the horizon stays small whatever the scale.
pub fn gen_time(rng: &mut Rng, o: &TimeOpts) -> Case {
    let bo = BenchOpts {
        min_nodes: 1,
        max_nodes: o.max_nodes,
        st_only: o.st_only,
        mt_only: o.mt_only,
        queries: false,
        sinks: false,
        sources: true,
        init_ops: false,
        max_ops: 2,
        max_kinds: 3,
        caps: vec![1, 2, 4, 16],
        ..Default::default()
    };
    let case = gen_bench(rng, &bo);
    gen_time_on(rng, o, case)
}

/// Adds scheduling activity (model-side requests, driver script, scripted
/// clock) to an existing bench.
pub fn gen_time_on(rng: &mut Rng, o: &TimeOpts, mut case: Case) -> Case {
    // Event sources for `Via::Action` need at least one source without filters to keep firing observable.
    if case.sources.iter().all(|s| s.query) {
        let t = rng.usize(case.nodes.len()) as u16;
        case.sources.push(SourceSpec { edges: vec![Edge { cid: 90_000, target: Target::Node(t), map: rng.pct(50), filter: None }], query: false });
    }
    let unit = *rng.pick(UNITS);
    let n = case.nodes.len();
    let kinds = case.nodes[0].on.len().max(1) as u64;
    let slots: u8 = 3;

    // Model-side scheduling and cancelling.
    if o.model_sched {
        for i in 0..n {
            for k in 0..case.nodes[i].on.len() {
                if rng.pct(40) {
                    let cnt = if rng.pct(o.burst_pct) { rng.range(2, 4) } else { 1 };
                    let same = When::Rel(unit * rng.range(1, 4));
                    for _ in 0..cnt {
                        let when = if rng.pct(60) { same } else { gen_when(rng, o, unit, 0, None) };
                        // Absolute deadlines from models are relative to t0 and may lie in the past: fine (rejected).
                        let mode = gen_mode(rng, o, unit, slots);
                        let pos = rng.usize(case.nodes[i].on[k].len() + 1);
                        case.nodes[i].on[k].insert(pos, Op::Sched { kind: rng.below(kinds) as u8, when, mode });
                    }
                }
                if rng.pct(o.cancel_pct) {
                    let pos = rng.usize(case.nodes[i].on[k].len() + 1);
                    case.nodes[i].on[k].insert(pos, Op::Cancel { slot: rng.below(slots as u64) as u8, how: rng.below(4) as u8 });
                }
                if rng.pct(15) {
                    case.nodes[i].on[k].push(Op::ReadTime);
                }
            }
            if rng.pct(25) {
                let mode = gen_mode(rng, o, unit, slots);
                case.nodes[i].init.push(Op::Sched { kind: rng.below(kinds) as u8, when: When::Rel(unit * rng.range(1, 5)), mode });
            }
        }
    }

    // Driver script.
    let mut script = Vec::new();
    let mut now_units: u64 = 0; // lower bound of the current time in units after t0
    let n_cmds = rng.range(2, o.max_cmds as u64) as usize;
    let mut burst_at: Option<u64> = None;
    let esources: Vec<u16> = case.sources.iter().enumerate().filter(|(_, s)| !s.query).map(|(i, _)| i as u16).collect();
    for ci in 0..n_cmds {
        let r = rng.below(100);
        if r < 45 {
            if burst_at.is_none() && rng.pct(o.burst_pct) {
                burst_at = Some(now_units + rng.range(1, 5));
            }
            let via = if !esources.is_empty() && rng.pct(o.via_action_pct) { Via::Action(*rng.pick(&esources)) } else { Via::Direct };
            let mut mode = gen_mode(rng, o, unit, slots);
            if !o.zero_period_action {
                // A zero-period action is only generated when explicitly enabled.
                if let (Via::Action(_), Mode::Periodic(0)) | (Via::Action(_), Mode::KeyedPeriodic(_, 0)) = (via, mode) {
                    mode = Mode::Plain;
                }
            }
            script.push(Cmd::Sched { target: rng.usize(n) as u16, kind: rng.below(kinds) as u8, when: gen_when(rng, o, unit, now_units, burst_at), mode, via });
        } else if r < 60 {
            script.push(Cmd::Step);
            now_units += 0; // unknown advance; Abs deadlines below `now` are simply rejected
            burst_at = None;
        } else if r < 80 {
            let adv = rng.range(0, 6);
            let when = if rng.pct(o.invalid_pct) {
                When::Past(unit * rng.range(1, 3))
            } else if rng.pct(50) {
                When::Rel(unit * adv)
            } else {
                When::Abs(unit * (now_units + adv))
            };
            if matches!(when, When::Abs(_) | When::Rel(_)) {
                now_units += adv;
            }
            script.push(Cmd::StepUntil { when });
            burst_at = None;
        } else if r < 80 + o.cancel_pct {
            script.push(Cmd::Cancel { slot: rng.below(slots as u64) as u8, how: rng.below(4) as u8 });
        } else if r < 97 {
            script.push(Cmd::ProcessEvent { target: rng.usize(n) as u16, kind: rng.below(kinds) as u8 });
        } else if o.aux_threads > 0 && case.aux.len() < o.aux_threads {
            script.push(Cmd::SpawnAux { aux: case.aux.len() as u16 });
            let len = rng.range(1, 4) as usize;
            let mut a = Vec::new();
            for _ in 0..len {
                let x = rng.below(100);
                if x < 65 {
                    a.push(AuxCmd::Sched { target: rng.usize(n) as u16, kind: rng.below(kinds) as u8, when: gen_when(rng, o, unit, now_units, burst_at), mode: gen_mode(rng, o, unit, slots) });
                } else if x < 85 {
                    a.push(AuxCmd::ReadTime);
                } else {
                    a.push(AuxCmd::Cancel { slot: rng.below(slots as u64) as u8, how: rng.below(4) as u8 });
                }
            }
            case.aux.push(a);
        } else {
            script.push(Cmd::Step);
        }
        let _ = ci;
    }
    // Make sure time moves at the end so that pending actions get a chance to fire.
    script.push(Cmd::StepUntil { when: When::Rel(unit * rng.range(1, 8)) });
    // With auxiliary threads enabled, make sure at least one exists and races with stepping.
    if o.aux_threads > 0 && case.aux.is_empty() {
        let pos = rng.usize(script.len());
        let mut a = Vec::new();
        for _ in 0..rng.range(1, 4) {
            a.push(AuxCmd::Sched { target: rng.usize(n) as u16, kind: rng.below(kinds) as u8, when: gen_when(rng, o, unit, 0, None), mode: gen_mode(rng, o, unit, slots) });
        }
        case.aux.push(a);
        script.insert(pos, Cmd::SpawnAux { aux: 0 });
    }
    // Scripted clock.
    if o.clock_lag_pct > 0 {
        let calls = 24;
        case.cfg.clock = (0..calls).map(|_| if rng.pct(o.clock_lag_pct) { Some(unit.min(1_000_000) * rng.range(1, 9)) } else { None }).collect();
        case.cfg.tolerance = match rng.below(4) {
            0 => None,
            1 => Some(0),
            2 => Some(unit.min(1_000_000) * rng.range(1, 9)),
            _ => Some(u64::MAX / 4),
        };
    }
    case.script = script;
    case.profile = "time".into();
    case
}
