//! Per-execution harness state: the event log (global sequence numbers),
//! drop-token registry, busy flags, leaked-waker pool. Only `std` primitives
//! are used here: none of them is a scheduling point of the simulator and none
//! consults the PRNG, so logging never perturbs a schedule.

use std::collections::{BTreeMap, BTreeSet};
use std::sync::atomic::{AtomicBool, AtomicU64, Ordering};
use std::sync::{Arc, Mutex};
use std::task::Waker;

use serde::Serialize;

pub type T = (i64, u32); // (secs, nanos) of a MonotonicTime

#[derive(Clone, Debug, Serialize, PartialEq)]
pub enum Res {
    Ok,
    // scheduling errors
    InvalidTime,
    NullPeriod,
    // execution errors
    Terminated,
    Deadlock(Vec<(String, usize)>),
    MessageLoss(usize),
    NoRecipient(Option<String>),
    Panic { model: String, payload: String },
    Timeout,
    OutOfSync(u64),
    BadQuery,
    InvalidDeadline,
    /// The API call itself panicked (payload text).
    ApiPanic(String),
}

impl Res {
    pub fn is_fatal(&self) -> bool {
        matches!(
            self,
            Res::Deadlock(_) | Res::MessageLoss(_) | Res::NoRecipient(_) | Res::Panic { .. } | Res::Timeout | Res::OutOfSync(_)
        )
    }
    pub fn class(&self) -> &'static str {
        match self {
            Res::Ok => "Ok",
            Res::InvalidTime => "InvalidTime",
            Res::NullPeriod => "NullPeriod",
            Res::Terminated => "Terminated",
            Res::Deadlock(_) => "Deadlock",
            Res::MessageLoss(_) => "MessageLoss",
            Res::NoRecipient(_) => "NoRecipient",
            Res::Panic { .. } => "Panic",
            Res::Timeout => "Timeout",
            Res::OutOfSync(_) => "OutOfSync",
            Res::BadQuery => "BadQuery",
            Res::InvalidDeadline => "InvalidDeadline",
            Res::ApiPanic(_) => "ApiPanic",
        }
    }
}

/// Who performs an action: a model (node index), the driver thread, or an
/// auxiliary scheduler thread.
#[derive(Clone, Copy, Debug, Serialize, PartialEq, Eq, PartialOrd, Ord, Hash)]
pub enum Actor {
    Node(u16),
    Driver,
    Aux(u16),
}

#[derive(Clone, Debug, Serialize, PartialEq)]
pub enum SchedMode {
    Plain,
    Keyed(u16),
    Periodic(u64),
    KeyedPeriodic(u16, u64),
}

#[derive(Clone, Debug, Serialize)]
pub enum Ev {
    InitBegin { node: u16, name: String, thread: u32 },
    InitEnd { node: u16 },
    /// A handler invocation begins. `sched` identifies the scheduled action
    /// (if the message was produced by a scheduled action) and its occurrence.
    HBegin { node: u16, msg: u64, kind: u8, salt: u32, ttl: u8, via: u32, query: bool, time: T, sched: Option<(u32, u32)>, thread: u32, overlap: bool },
    HEnd { node: u16, msg: u64 },
    /// A port send operation: `msg` is the fresh identifier given to the
    /// message(s) of this operation.
    SendBegin { actor: Actor, port: u16, msg: u64, kind: u8, query: bool, salt: u32, ttl: u8 },
    SendEnd { actor: Actor, port: u16, msg: u64, replies: Vec<(u16, u64, u32, u32)> },
    /// A scheduling request and its result. `sid` is a fresh action
    /// identifier, `deadline` the absolute deadline computed by the harness
    /// from the time it read just before the call (`now`).
    SchedCall { actor: Actor, sid: u32, target: u16, kind: u8, mode: SchedMode, rel: Option<u64>, abs: Option<T>, via_action: bool, salt: u32, seq_before: u64 },
    SchedRet { actor: Actor, sid: u32, res: Res },
    CancelCall { actor: Actor, sid: u32, how: u8 },
    CancelRet { actor: Actor, sid: u32 },
    TimeRead { actor: Actor, time: T },
    CmdBegin { idx: u16, cmd: String, time: T },
    CmdEnd { idx: u16, res: Res, time: T, next_deadline: Option<T> },
    ClockSync { time: T, answer_lag: Option<u64> },
    SinkRead { sink: u16, asked: u8, items: Vec<(u64, u32)> },
    SinkCtl { sink: u16, open: bool },
    SinkWrite { sink: u16, msg: u64, via: u32, salt: u32 },
    Trace(TraceEv),
    DropSimBegin,
    DropSimEnd,
    AuxBegin { aux: u16 },
    AuxEnd { aux: u16 },
    PanicInjected { node: u16, payload: String },
    Note(String),
    /// Event of a component harness (C12, C13, C15).
    Comp(CompEv),
}

#[derive(Clone, Copy, Debug, Serialize, PartialEq)]
pub enum QRes {
    Ok,
    Full,
    Closed,
    Empty,
    Val(u64),
}

#[derive(Clone, Debug, Serialize, PartialEq)]
pub enum CompEv {
    // raw queue
    QInvoke { thread: u8, op: crate::case::QOp },
    QReturn { thread: u8, op: crate::case::QOp, res: QRes },
    QLenFinal { len: usize, held: bool },
    QDrained { rest: Vec<u64> },
    // asynchronous channel
    SendInvoke { p: u8, v: u64 },
    SendReturn { p: u8, v: u64, ok: bool },
    RecvInvoke,
    RecvReturn { v: Option<u64> },
    CloseInvoke { by_receiver: bool },
    CloseReturn { by_receiver: bool },
    ChanLenFinal { len: usize },
    // task
    TPollBegin { n: u64, overlap: bool, after_done: bool, after_drop: bool },
    TPollEnd { n: u64, ready: bool, panicked: bool },
    TFutureDropped { while_polling: bool },
    TOutputDropped,
    TScheduled { live: i64 },
    TOpBegin { thread: u8, op: crate::case::TOp },
    TOpEnd { thread: u8, op: crate::case::TOp },
    /// 0 = pending, 1 = ready (expected value), 2 = cancelled, 9 = ready with a wrong value.
    TPromise { thread: u8, stage: u8 },
    TDrainBegin,
    TDrainEnd { completed: bool, future_drops: u64 },
    TFinal { polls: u64, completed: bool, future_drops: u64, output_drops: u64, runnables_live: i64 },
    // time cell
    TimeWritten { idx: u64 },
    /// `idx`: index of the value read in the written sequence, -1 = not a value that was ever written, -2 = `try_read` failed.
    TimeRead { reader: u8, published: u64, idx: i64, raw: Option<(i64, u32)>, blocking: bool },
    TimeFinal { idx: i64 },
    // task set
    SetWakeBegin { thread: u8, idx: u8 },
    SetWakeEnd { thread: u8, idx: u8 },
    SetBatch { indices: Vec<usize>, poll: u32 },
    SetPending { poll: u32 },
    SetDone { polls: u32 },
}

#[derive(Clone, Copy, Debug, Serialize, PartialEq)]
pub enum TraceEv {
    Pushed(usize),
    Popped(usize),
    TimeWritten(i64, u32),
    TimeoutFired,
}

#[derive(Clone, Copy, Debug, PartialEq, Eq, Serialize)]
pub enum TokKind {
    Model,
    Msg,
    Reply,
    Fut,
}

#[derive(Default)]
pub struct TokState {
    pub live: BTreeMap<u64, TokKind>,
    pub created: u64,
    pub dropped: u64,
    pub double_drops: Vec<u64>,
    /// Token drops recorded after the simulation drop returned.
    pub late_drops: Vec<u64>,
}

pub struct ExecCtx {
    pub log: Mutex<Vec<Ev>>,
    pub next_msg: AtomicU64,
    pub next_sid: AtomicU64,
    pub next_tok: AtomicU64,
    /// Remaining model-side scheduling requests (bounds self-scheduling cascades).
    pub sched_budget: std::sync::atomic::AtomicI64,
    pub toks: Mutex<TokState>,
    pub busy: Vec<AtomicBool>,
    pub wakers: Mutex<Vec<Waker>>,
    /// Set once `drop(simulation)` returned: any model code running after
    /// that is a violation.
    pub sim_dropped: AtomicBool,
    pub after_drop_activity: Mutex<Vec<String>>,
    pub violations: Mutex<Vec<(String, String)>>,
    pub probes_seen: Mutex<BTreeSet<&'static str>>,
    /// Handler futures wake all leaked wakers when dropped.
    pub wake_on_drop: AtomicBool,
    /// Number of wake-ups issued from destructors while the simulation was being dropped.
    pub drop_wakes: AtomicU64,
    pub sim_dropping: AtomicBool,
    /// A step time-out is in force (set by the driver when it is configured).
    pub timeout_armed: AtomicBool,
    /// The harness made a timed wait of the executor elapse.
    pub timeout_seen: AtomicBool,
    /// Set at the very end of the run: no waker may be stored any more (the
    /// context outlives the simulated execution).
    pub pool_closed: AtomicBool,
}

impl ExecCtx {
    pub fn new(nodes: usize) -> Arc<Self> {
        Arc::new(Self {
            log: Mutex::new(Vec::with_capacity(256)),
            next_msg: AtomicU64::new(1),
            next_sid: AtomicU64::new(1),
            next_tok: AtomicU64::new(1),
            sched_budget: std::sync::atomic::AtomicI64::new(40),
            toks: Mutex::new(TokState::default()),
            busy: (0..nodes).map(|_| AtomicBool::new(false)).collect(),
            wakers: Mutex::new(Vec::new()),
            sim_dropped: AtomicBool::new(false),
            after_drop_activity: Mutex::new(Vec::new()),
            violations: Mutex::new(Vec::new()),
            probes_seen: Mutex::new(BTreeSet::new()),
            wake_on_drop: AtomicBool::new(false),
            drop_wakes: AtomicU64::new(0),
            sim_dropping: AtomicBool::new(false),
            timeout_armed: AtomicBool::new(false),
            timeout_seen: AtomicBool::new(false),
            pool_closed: AtomicBool::new(false),
        })
    }

    /// Appends an event and returns its global sequence number.
    pub fn log(&self, ev: Ev) -> u64 {
        let mut l = self.log.lock().unwrap_or_else(|e| e.into_inner());
        l.push(ev);
        (l.len() - 1) as u64
    }

    pub fn seq(&self) -> u64 {
        self.log.lock().unwrap_or_else(|e| e.into_inner()).len() as u64
    }

    pub fn fresh_msg(&self) -> u64 {
        self.next_msg.fetch_add(1, Ordering::Relaxed)
    }

    pub fn fresh_sid(&self) -> u32 {
        self.next_sid.fetch_add(1, Ordering::Relaxed) as u32
    }

    /// Records a violation found while the run proceeds (invariant check).
    pub fn violation(&self, rule: &str, detail: String) {
        self.violations.lock().unwrap_or_else(|e| e.into_inner()).push((rule.to_string(), detail));
    }

    pub fn model_activity(&self, what: &str) {
        if self.sim_dropped.load(Ordering::SeqCst) {
            self.after_drop_activity.lock().unwrap_or_else(|e| e.into_inner()).push(what.to_string());
        }
    }
}

/// A counted drop token embedded in every model, message and reply.
pub struct Tok {
    ctx: Arc<ExecCtx>,
    id: u64,
    kind: TokKind,
}

impl Tok {
    pub fn new(ctx: &Arc<ExecCtx>, kind: TokKind) -> Self {
        let id = ctx.next_tok.fetch_add(1, Ordering::Relaxed);
        let mut t = ctx.toks.lock().unwrap_or_else(|e| e.into_inner());
        t.live.insert(id, kind);
        t.created += 1;
        Self { ctx: ctx.clone(), id, kind }
    }
    pub fn ctx(&self) -> &Arc<ExecCtx> {
        &self.ctx
    }
}

impl Clone for Tok {
    fn clone(&self) -> Self {
        Tok::new(&self.ctx, self.kind)
    }
}

impl Drop for Tok {
    fn drop(&mut self) {
        {
            let mut t = self.ctx.toks.lock().unwrap_or_else(|e| e.into_inner());
            if t.live.remove(&self.id).is_none() {
                t.double_drops.push(self.id);
            }
            t.dropped += 1;
            if self.ctx.sim_dropped.load(Ordering::SeqCst) && self.kind != TokKind::Msg && self.kind != TokKind::Reply {
                t.late_drops.push(self.id);
            }
        }
        // Tasks waking one another while being dropped: the token of a handler
        // future wakes every leaked waker (no harness lock is held here: a wake
        // is a scheduling point of the simulator).
        if self.kind == TokKind::Fut && self.ctx.wake_on_drop.load(Ordering::SeqCst) {
            // The pool is taken out and put back: cloning or waking a waker is a scheduling
            // point and must not happen with the (std) pool lock held.
            let ws: Vec<Waker> = std::mem::take(&mut *self.ctx.wakers.lock().unwrap_or_else(|e| e.into_inner()));
            for w in &ws {
                w.wake_by_ref();
                if self.ctx.sim_dropping.load(Ordering::SeqCst) {
                    self.ctx.drop_wakes.fetch_add(1, Ordering::Relaxed);
                }
            }
            let mut p = self.ctx.wakers.lock().unwrap_or_else(|e| e.into_inner());
            let newer = std::mem::take(&mut *p);
            *p = ws;
            p.extend(newer);
        }
    }
}

impl std::fmt::Debug for Tok {
    fn fmt(&self, f: &mut std::fmt::Formatter<'_>) -> std::fmt::Result {
        write!(f, "Tok({})", self.id)
    }
}
