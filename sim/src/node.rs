//! The scripted model (`Node`) whose behaviour is data, and the bench builder.

use std::future::poll_fn;
use std::sync::atomic::Ordering;
use std::sync::{Arc, Mutex};
use std::task::Poll;
use std::time::Duration;

use nexosim::model::{BuildContext, Context, InitializedModel, Model, ProtoModel};
use nexosim::ports::{EventBuffer, EventSink, EventSinkWriter, EventSlot, EventSource, Output, QuerySource, Requestor, UniRequestor};
use nexosim::simulation::{ActionKey, Address, Mailbox, SchedulingError, SimInit};
use nexosim::time::{Clock, MonotonicTime, SyncStatus};

use crate::case::*;
use crate::ctx::{Actor, Ev, ExecCtx, Res, SchedMode, Tok, TokKind};
use crate::rt;

/// Time stamps of a case are `u64` nanosecond counts whose origin lies `EPOCH_OFFSET_NS` (about
/// 0.95 years) *before* the epoch of `MonotonicTime`: about 30 % of the generated start times are
/// therefore pre-epoch (negative seconds), and some runs cross the epoch.
pub const EPOCH_OFFSET_NS: u64 = 30_000_000_000_000_000;
pub fn mt(ns: u64) -> MonotonicTime {
    if ns >= EPOCH_OFFSET_NS {
        MonotonicTime::EPOCH + Duration::from_nanos(ns - EPOCH_OFFSET_NS)
    } else {
        MonotonicTime::EPOCH - Duration::from_nanos(EPOCH_OFFSET_NS - ns)
    }
}
pub fn tt(t: MonotonicTime) -> (i64, u32) {
    (t.as_secs(), t.subsec_nanos())
}
pub fn tt_ns(ns_after_epoch: u64) -> (i64, u32) {
    tt(mt(ns_after_epoch))
}

#[derive(Clone, Debug)]
pub struct Msg {
    pub id: u64,
    pub kind: u8,
    pub ttl: u8,
    pub salt: u32,
    pub via: u32,
    pub sched: Option<u32>,
    pub tok: Tok,
}

impl Msg {
    pub fn new(ctx: &Arc<ExecCtx>, id: u64, kind: u8, ttl: u8, salt: u32) -> Self {
        Self { id, kind, ttl, salt, via: 0, sched: None, tok: Tok::new(ctx, TokKind::Msg) }
    }
    fn with_via(&self, via: u32) -> Self {
        let mut m = self.clone();
        m.via = via;
        m
    }
}

#[derive(Clone, Debug)]
pub struct Reply {
    pub replier: u16,
    pub msg: u64,
    pub via: u32,
    pub rvia: u32,
    pub tok: Tok,
}

pub fn child_salt(parent: u32, node: u16, op_idx: usize) -> u32 {
    (crate::rng::mix(parent as u64, ((node as u64) << 16) | op_idx as u64) & 0xffff_ffff) as u32
}

pub fn sched_err(e: SchedulingError) -> Res {
    match e {
        SchedulingError::InvalidScheduledTime => Res::InvalidTime,
        SchedulingError::NullRepetitionPeriod => Res::NullPeriod,
    }
}

pub fn mode_log(m: &Mode) -> SchedMode {
    match *m {
        Mode::Plain => SchedMode::Plain,
        Mode::Keyed(s) => SchedMode::Keyed(s as u16),
        Mode::Periodic(p) => SchedMode::Periodic(p),
        Mode::KeyedPeriodic(s, p) => SchedMode::KeyedPeriodic(s as u16, p),
    }
}

/// Key slots shared by an actor's scheduling and cancel operations.
#[derive(Default)]
pub struct Keys {
    pub slots: Vec<Option<(ActionKey, u32)>>,
}
impl Keys {
    pub fn put(&mut self, slot: u8, key: ActionKey, sid: u32) {
        let s = slot as usize;
        if self.slots.len() <= s {
            self.slots.resize_with(s + 1, || None);
        }
        self.slots[s] = Some((key, sid));
    }
    /// Cancels the key in `slot` (if any) the requested way.
    pub fn cancel(&mut self, ctx: &ExecCtx, actor: Actor, slot: u8, how: u8) {
        let s = slot as usize;
        if s >= self.slots.len() {
            return;
        }
        let Some((key, sid)) = self.slots[s].take() else { return };
        ctx.log(Ev::CancelCall { actor, sid, how });
        match how {
            0 => key.cancel(),
            1 => {
                let c = key.clone();
                c.cancel();
                // The original stays in the slot: cancelling it again later
                // must have no further effect.
                self.slots[s] = Some((key, sid));
            }
            2 => {
                let auto = key.into_auto();
                drop(auto);
            }
            _ => {
                // A clone stays alive (and in the slot) while the auto key is dropped.
                let c = key.clone();
                let auto = key.into_auto();
                drop(auto);
                self.slots[s] = Some((c, sid));
            }
        }
        ctx.log(Ev::CancelRet { actor, sid });
    }
}

/// Runs a handler made of synchronous operations only (see `case::Op::is_sync`) to completion.
fn poll_once<F: std::future::Future<Output = ()>>(f: F) {
    let mut f = std::pin::pin!(f);
    let mut cx = std::task::Context::from_waker(std::task::Waker::noop());
    if f.as_mut().poll(&mut cx).is_pending() {
        panic!("nxv harness error: a synchronous input contains an operation that suspends");
    }
}

/// Evaluates `$e` with `$f` bound to the event input of a node: the synchronous one if `$sync`.
macro_rules! with_ev {
    ($sync:expr, |$f:ident| $e:expr) => {
        if $sync {
            let $f = Node::on_event_sync;
            $e
        } else {
            let $f = Node::on_event;
            $e
        }
    };
}
/// Replier inputs are always `async` (NeXosim has no synchronous replier signature).
macro_rules! with_q {
    ($sync:expr, |$f:ident| $e:expr) => {{
        let _ = $sync;
        let $f = Node::on_query;
        $e
    }};
}
pub(crate) use {with_ev, with_q};

pub struct Node {
    pub idx: u16,
    ctx: Arc<ExecCtx>,
    case: Arc<Case>,
    outs: Vec<Output<Msg>>,
    reqs: Vec<ReqPort>,
    keys: Keys,
    invocations: u32,
    /// Plain (non-atomic) field written by every computation of this model:
    /// overlapping computations without happens-before are a data race that
    /// Miri reports under E2.
    plain: u64,
    addrs: Vec<Address<Node>>,
    /// Writers of the bench's sinks (for connections made at run time).
    sinkw: Vec<SinkW>,
    /// Connection ids of the sink connections already made at run time (each is made once).
    sink_cids: Vec<u32>,
    _tok: Tok,
}

struct BusyGuard<'a> {
    ctx: &'a ExecCtx,
    idx: usize,
}
impl Drop for BusyGuard<'_> {
    fn drop(&mut self) {
        self.ctx.busy[self.idx].store(false, Ordering::SeqCst);
    }
}

impl Node {
    fn spec(&self) -> &NodeSpec {
        &self.case.nodes[self.idx as usize]
    }

    fn maybe_panic(&mut self, invocation: u32) {
        if let Some((at, ptype)) = self.spec().panic_at {
            if at == invocation {
                let text = format!("injected-{}-{}", self.idx, invocation);
                self.ctx.log(Ev::PanicInjected { node: self.idx, payload: text.clone() });
                match ptype {
                    0 => {
                        // &'static str payload
                        let s: &'static str = Box::leak(text.into_boxed_str());
                        std::panic::panic_any(s);
                    }
                    1 => std::panic::panic_any(text),
                    _ => std::panic::panic_any(0xC0FFEE_u32 + self.idx as u32),
                }
            }
        }
    }

    /// Synchronous input (nodes with `sync_inputs`): NeXosim calls it eagerly when the message
    /// is dequeued, whereas an `async` input is only run when the returned future is polled.
    pub fn on_event_sync(&mut self, msg: Msg, cx: &mut Context<Self>) {
        poll_once(self.handle(msg, cx, false));
    }

    pub async fn on_event(&mut self, msg: Msg, cx: &mut Context<Self>) {
        self.handle(msg, cx, false).await;
    }

    pub async fn on_query(&mut self, msg: Msg, cx: &mut Context<Self>) -> Reply {
        let (id, via) = (msg.id, msg.via);
        self.handle(msg, cx, true).await;
        Reply { replier: self.idx, msg: id, via, rvia: 0, tok: Tok::new(&self.ctx, TokKind::Reply) }
    }

    async fn handle(&mut self, msg: Msg, cx: &mut Context<Self>, query: bool) {
        let ctx = self.ctx.clone();
        let time = tt(cx.time());
        let overlap = ctx.busy[self.idx as usize].swap(true, Ordering::SeqCst);
        let _busy = BusyGuard { ctx: &ctx, idx: self.idx as usize };
        ctx.model_activity("handler");
        self.plain = self.plain.wrapping_add(1);
        ctx.log(Ev::HBegin {
            node: self.idx,
            msg: msg.id,
            kind: msg.kind,
            salt: msg.salt,
            ttl: msg.ttl,
            via: msg.via,
            query,
            time,
            sched: msg.sched.map(|s| (s, 0)),
            thread: rt::me(),
            overlap,
        });
        let _fut_tok = Tok::new(&ctx, TokKind::Fut);
        let inv = self.invocations;
        self.invocations += 1;
        self.maybe_panic(inv);
        let ops = self.spec().on.get(msg.kind as usize).cloned().unwrap_or_default();
        for (i, op) in ops.iter().enumerate() {
            self.exec(op, i, &msg, cx).await;
        }
        self.plain = self.plain.wrapping_add(1);
        ctx.log(Ev::HEnd { node: self.idx, msg: msg.id });
    }

    /// Boxed with an explicit `Send` bound: handlers schedule events on their
    /// own input, which would otherwise make the auto-trait inference cyclic.
    fn exec<'a>(
        &'a mut self,
        op: &'a Op,
        op_idx: usize,
        msg: &'a Msg,
        cx: &'a mut Context<Self>,
    ) -> std::pin::Pin<Box<dyn std::future::Future<Output = ()> + Send + 'a>> {
        Box::pin(self.exec_inner(op, op_idx, msg, cx))
    }

    async fn exec_inner(&mut self, op: &Op, op_idx: usize, msg: &Msg, cx: &mut Context<Self>) {
        let ctx = self.ctx.clone();
        let actor = Actor::Node(self.idx);
        match *op {
            Op::Send { port, kind } => {
                if msg.ttl == 0 || port as usize >= self.outs.len() {
                    return;
                }
                let id = ctx.fresh_msg();
                let m = Msg::new(&ctx, id, kind, msg.ttl - 1, child_salt(msg.salt, self.idx, op_idx));
                ctx.log(Ev::SendBegin { actor, port: port as u16, msg: id, kind, query: false, salt: m.salt, ttl: m.ttl });
                self.outs[port as usize].send(m).await;
                ctx.log(Ev::SendEnd { actor, port: port as u16, msg: id, replies: vec![] });
            }
            Op::Query { port, kind } => {
                if msg.ttl == 0 || port as usize >= self.reqs.len() {
                    return;
                }
                let id = ctx.fresh_msg();
                let m = Msg::new(&ctx, id, kind, msg.ttl - 1, child_salt(msg.salt, self.idx, op_idx));
                ctx.log(Ev::SendBegin { actor, port: 1000 + port as u16, msg: id, kind, query: true, salt: m.salt, ttl: m.ttl });
                let take = self.spec().reply_take.map(|t| t as usize).unwrap_or(usize::MAX);
                let replies: Vec<(u16, u64, u32, u32)> = match &mut self.reqs[port as usize] {
                    ReqPort::Multi(req) => req.send(m).await.take(take).map(|r| (r.replier, r.msg, r.via, r.rvia)).collect(),
                    ReqPort::Uni(req) => req.send(m).await.into_iter().take(take).map(|r| (r.replier, r.msg, r.via, r.rvia)).collect(),
                };
                ctx.log(Ev::SendEnd { actor, port: 1000 + port as u16, msg: id, replies });
            }
            Op::Sched { kind, when, mode } => {
                if msg.ttl == 0 || ctx.sched_budget.fetch_sub(1, Ordering::Relaxed) <= 0 {
                    return;
                }
                let id = ctx.fresh_msg();
                let sid = ctx.fresh_sid();
                let mut m = Msg::new(&ctx, id, kind, msg.ttl.saturating_sub(1), child_salt(msg.salt, self.idx, op_idx));
                m.sched = Some(sid);
                let now = cx.time();
                let (rel, abs) = when_parts(when, self.case.cfg.t0, now);
                let seq_before = ctx.log(Ev::SchedCall {
                    actor,
                    sid,
                    target: self.idx,
                    kind,
                    mode: mode_log(&mode),
                    rel,
                    abs,
                    via_action: false,
                    salt: m.salt,
                    seq_before: 0,
                });
                let _ = seq_before;
                let res = with_ev!(self.spec().sync_inputs, |__f| match (mode, rel, abs) {
                    (Mode::Plain, Some(d), _) => cx.schedule_event(Duration::from_nanos(d), __f, m).map(|_| None),
                    (Mode::Plain, None, Some(t)) => cx.schedule_event(mtt(t), __f, m).map(|_| None),
                    (Mode::Keyed(_), Some(d), _) => cx.schedule_keyed_event(Duration::from_nanos(d), __f, m).map(Some),
                    (Mode::Keyed(_), None, Some(t)) => cx.schedule_keyed_event(mtt(t), __f, m).map(Some),
                    (Mode::Periodic(p), Some(d), _) => cx
                        .schedule_periodic_event(Duration::from_nanos(d), crate::case::period_dur(p), __f, m)
                        .map(|_| None),
                    (Mode::Periodic(p), None, Some(t)) => {
                        cx.schedule_periodic_event(mtt(t), crate::case::period_dur(p), __f, m).map(|_| None)
                    }
                    (Mode::KeyedPeriodic(_, p), Some(d), _) => cx
                        .schedule_keyed_periodic_event(Duration::from_nanos(d), crate::case::period_dur(p), __f, m)
                        .map(Some),
                    (Mode::KeyedPeriodic(_, p), None, Some(t)) => cx
                        .schedule_keyed_periodic_event(mtt(t), crate::case::period_dur(p), __f, m)
                        .map(Some),
                    _ => unreachable!(),
                });
                let r = match res {
                    Ok(key) => {
                        if let Some(key) = key {
                            let slot = match mode {
                                Mode::Keyed(s) | Mode::KeyedPeriodic(s, _) => s,
                                _ => 0,
                            };
                            self.keys.put(slot, key, sid);
                        }
                        Res::Ok
                    }
                    Err(e) => sched_err(e),
                };
                ctx.log(Ev::SchedRet { actor, sid, res: r });
            }
            Op::Cancel { slot, how } => {
                self.keys.cancel(&ctx, actor, slot, how);
            }
            Op::ReadTime => {
                let t = tt(cx.time());
                ctx.log(Ev::TimeRead { actor, time: t });
            }
            Op::HoldUntilTimeout => {
                // An overrunning computation: once a step time-out is in force, the handler
                // keeps the step busy until the executor's timed wait has elapsed (the harness
                // makes the first timed wait that blocks elapse). Bounded: if no timed wait
                // ever blocks, the step overran without a `Timeout`.
                if ctx.timeout_armed.load(Ordering::SeqCst) && !ctx.timeout_seen.load(Ordering::SeqCst) {
                    let mut n = 0u32;
                    while !ctx.timeout_seen.load(Ordering::SeqCst) && n < 100_000 {
                        rt::yield_now();
                        n += 1;
                    }
                    if !ctx.timeout_seen.load(Ordering::SeqCst) {
                        ctx.violation("c11_timeout_not_raised", format!("node {} kept a step busy for 100000 scheduling rounds with a step time-out configured, and no timed wait of the executor ever blocked: the overrunning step cannot yield Timeout", self.idx));
                    }
                }
            }
            Op::LeakWaker => {
                // Clone first, lock after: a waker clone is a scheduling point and
                // a std mutex must never be held across one.
                let w = poll_fn(|tcx| Poll::Ready(tcx.waker().clone())).await;
                // At most 16 leaked wakers at a time (each `ChaosWake` walks the whole pool).
                let keep = !ctx.pool_closed.load(Ordering::SeqCst) && ctx.wakers.lock().unwrap().len() < 16;
                if keep {
                    ctx.wakers.lock().unwrap().push(w);
                } else {
                    drop(w);
                }
            }
            Op::ChaosWake { how } => {
                // Runs on an executor thread (inside a handler), as NeXosim requires.
                match how {
                    0 => {
                        let ws: Vec<_> = std::mem::take(&mut *ctx.wakers.lock().unwrap());
                        for w in &ws {
                            w.wake_by_ref();
                        }
                        let mut p = ctx.wakers.lock().unwrap();
                        let newer = std::mem::take(&mut *p);
                        *p = ws;
                        p.extend(newer);
                    }
                    1 => {
                        let w = {
                            let mut p = ctx.wakers.lock().unwrap();
                            if p.is_empty() { None } else { Some(p.remove(0)) }
                        };
                        if let Some(w) = w {
                            w.wake();
                        }
                    }
                    _ => {
                        let w = {
                            let mut p = ctx.wakers.lock().unwrap();
                            if p.is_empty() { None } else { Some(p.remove(0)) }
                        };
                        drop(w);
                    }
                }
            }
            Op::Nested { models } => {
                self.nested(models);
            }
            Op::Connect { port, target, cid } if port >= 100 => {
                let rp = (port - 100) as usize;
                if rp < self.reqs.len() && (target as usize) < self.addrs.len() {
                    let addr = self.addrs[target as usize].clone();
                    let rmap = move |mut r: Reply| {
                        r.rvia = cid;
                        r
                    };
                    // (a port with dynamic connections is never built as a `UniRequestor`)
                    if let ReqPort::Multi(req) = &mut self.reqs[rp] {
                        with_q!(self.case.nodes[target as usize].sync_inputs, |__f| req.map_connect(move |m: &Msg| m.with_via(cid), rmap, __f, addr));
                    }
                    ctx.log(Ev::Note(format!("connect node={} port={} target={} cid={}", self.idx, port, target, cid)));
                }
            }
            Op::Connect { port, target, cid } if target >= 10_000 => {
                let s = (target - 10_000) as usize;
                if (port as usize) < self.outs.len() && s < self.sinkw.len() && !self.sink_cids.contains(&cid) {
                    self.sink_cids.push(cid);
                    let c = ctx.clone();
                    let sink = s as u16;
                    let log = move |x: &Msg| {
                        c.log(Ev::SinkWrite { sink, msg: x.id, via: cid, salt: x.salt });
                        x.with_via(cid)
                    };
                    match &self.sinkw[s] {
                        SinkW::Buffer(w) => self.outs[port as usize].map_connect_sink(log, &WSink(w.clone())),
                        SinkW::Slot(w) => self.outs[port as usize].map_connect_sink(log, &WSink(w.clone())),
                    }
                    ctx.log(Ev::Note(format!("connect node={} port={} target={} cid={}", self.idx, port, target, cid)));
                }
            }
            Op::Connect { port, target, cid } => {
                if (port as usize) < self.outs.len() && (target as usize) < self.addrs.len() {
                    let addr = self.addrs[target as usize].clone();
                    with_ev!(self.case.nodes[target as usize].sync_inputs, |__f| self.outs[port as usize].map_connect(move |m: &Msg| m.with_via(cid), __f, addr));
                    ctx.log(Ev::Note(format!("connect node={} port={} target={} cid={}", self.idx, port, target, cid)));
                }
            }
        }
    }
}

/// Start time of every nested simulation: far outside the range of the outer simulation's times,
/// so that the ground-truth trace of time writes can tell the two apart.
pub const INNER_T0: (i64, u32) = (-7_000_000_000, 123);

/// Model of the nested simulations (`Op::Nested`).
#[derive(Default)]
pub struct InnerModel {
    out: Output<u64>,
}
impl Model for InnerModel {}
impl InnerModel {
    pub async fn ping(&mut self, x: u64) {
        match x {
            666 => std::panic::panic_any("inner model panic"),
            // one message through the output
            2 => self.out.send(1).await,
            // two messages through the output (to the model's own capacity-1 mailbox: the second
            // send never completes)
            3 => {
                self.out.send(1).await;
                self.out.send(1).await;
            }
            _ => {}
        }
    }
}

impl Node {
    /// Synchronous use of a second simulation from within a handler: it is built, run and
    /// dropped while the outer executor is polling this model. Scenario `models`:
    /// 1-3 = that many idle models, single-threaded; 4 = two worker threads; 5 = the inner
    /// model panics; 6 = the inner model sends to a mailbox that is in no simulation
    /// (`MessageLoss(1)`); 7 = the inner model stalls on its own full mailbox (`Deadlock`);
    /// 8 = an event-source action of the inner simulation targets a dropped mailbox
    /// (`NoRecipient` without a model); 9 = the inner model sends to a dropped mailbox
    /// (`NoRecipient` naming it). The inner results are checked on the spot; the outer
    /// simulation must be unaffected.
    fn nested(&mut self, models: u8) {
        use nexosim::simulation::ExecutionError as E;
        let ctx = self.ctx.clone();
        let inner_threads = if models == 4 { 2 } else { 1 };
        let mut init = SimInit::with_num_threads(inner_threads);
        let mut inner_addrs = Vec::new();
        let mut keep_alive: Vec<Mailbox<InnerModel>> = Vec::new();
        let count = if models <= 3 { models.max(1) } else if models == 4 { 3 } else { 1 };
        for k in 0..count {
            let mb: Mailbox<InnerModel> = if models == 7 { Mailbox::with_capacity(1) } else { Mailbox::new() };
            let mut m = InnerModel::default();
            match models {
                6 => {
                    let orphan: Mailbox<InnerModel> = Mailbox::new();
                    m.out.connect(InnerModel::ping, orphan.address());
                    keep_alive.push(orphan);
                }
                7 => m.out.connect(InnerModel::ping, mb.address()),
                9 => {
                    let gone: Mailbox<InnerModel> = Mailbox::new();
                    m.out.connect(InnerModel::ping, gone.address());
                    drop(gone);
                }
                _ => {}
            }
            inner_addrs.push(mb.address());
            init = init.add_model(m, mb, format!("inner{}", k));
        }
        let mut src: EventSource<u64> = EventSource::new();
        if models == 8 {
            let gone: Mailbox<InnerModel> = Mailbox::new();
            src.connect(InnerModel::ping, gone.address());
            drop(gone);
        }
        let bad = |what: String| ctx.violation("c11_nested_misreported", format!("simulation nested in a handler of node {} (scenario {}): {}", self.idx, models, what));
        match init.init(MonotonicTime::new(INNER_T0.0, INNER_T0.1).unwrap()) {
            Ok((mut inner, _sched)) => {
                for (k, a) in inner_addrs.iter().enumerate() {
                    let arg = match models {
                        5 => 666u64,
                        6 | 9 => 2,
                        7 => 3,
                        _ => 1,
                    };
                    let r = if models == 8 { inner.process(src.event(1)) } else { inner.process_event(InnerModel::ping, arg, a) };
                    let ok = match (models, k, &r) {
                        (1..=4, _, Ok(())) => true,
                        (5, 0, Err(E::Panic { model, payload })) => model == "inner0" && payload.downcast_ref::<&str>() == Some(&"inner model panic"),
                        (6, 0, Err(E::MessageLoss(1))) => true,
                        (7, 0, Err(E::Deadlock(v))) => v.len() == 1 && v[0].model == "inner0" && v[0].mailbox_size == 1,
                        (8, 0, Err(E::NoRecipient { model: None })) => true,
                        (9, 0, Err(E::NoRecipient { model: Some(m) })) => m == "inner0",
                        _ => false,
                    };
                    if !ok {
                        bad(format!("call {} returned {:?}", k, r));
                    }
                    if models >= 5 && !matches!(inner.process_event(InnerModel::ping, 1u64, a), Err(E::Terminated)) {
                        bad("a further call did not return Terminated".into());
                    }
                }
                drop(inner);
            }
            Err(e) => bad(format!("init returned {:?}", e)),
        }
        drop(keep_alive);
        ctx.log(Ev::Note(format!("nested simulation scenario {} built, run and dropped by node {}", models, self.idx)));
    }
}

pub fn mtt(t: (i64, u32)) -> MonotonicTime {
    MonotonicTime::new(t.0, t.1).unwrap()
}

/// Resolves a `When` into (relative ns, absolute time), exactly one of which
/// is `Some`.
pub fn when_parts(when: When, t0: u64, now: MonotonicTime) -> (Option<u64>, Option<(i64, u32)>) {
    match when {
        When::Rel(d) => (Some(d), None),
        When::Abs(a) => (None, Some(tt(mt(t0 + a)))),
        When::Past(d) => (None, Some(tt(now - Duration::from_nanos(d)))),
    }
}

impl Model for Node {
    async fn init(mut self, cx: &mut Context<Self>) -> InitializedModel<Self> {
        let ctx = self.ctx.clone();
        {
            let overlap = ctx.busy[self.idx as usize].swap(true, Ordering::SeqCst);
            if overlap {
                ctx.violation("overlap", format!("init of node {} overlaps another computation", self.idx));
            }
            let _busy = BusyGuard { ctx: &ctx, idx: self.idx as usize };
            ctx.model_activity("init");
            self.plain = self.plain.wrapping_add(1);
            ctx.log(Ev::InitBegin { node: self.idx, name: cx.name().to_string(), thread: rt::me() });
            let _fut_tok = Tok::new(&ctx, TokKind::Fut);
            self.maybe_panic(u32::MAX - 1);
            let ops = self.spec().init.clone();
            let seed = Msg::new(&ctx, 0, 0, 3, child_salt(0x1217, self.idx, 0));
            for (i, op) in ops.iter().enumerate() {
                self.exec(op, 100 + i, &seed, cx).await;
            }
            ctx.log(Ev::InitEnd { node: self.idx });
        }
        self.into()
    }
}

/// Prototype wrapper used for models that have sub-models.
pub struct ProtoNode {
    node: Node,
    /// (prototype, mailbox or - for a late mailbox - its capacity, name)
    children: Vec<(ProtoNode, Result<Mailbox<Node>, u8>, String)>,
    /// Connections from this model's children to this model that must be made with the address
    /// obtained in `build()`: (position in `children`, output port, edge).
    late_edges: Vec<(usize, usize, Edge)>,
}

impl ProtoModel for ProtoNode {
    type Model = Node;

    fn build(mut self, cx: &mut BuildContext<Self>) -> Node {
        if !self.late_edges.is_empty() {
            let me = cx.address();
            let me_sync = self.node.spec().sync_inputs;
            for (pos, port, e) in std::mem::take(&mut self.late_edges) {
                let cid = e.cid;
                let out = &mut self.children[pos].0.node.outs[port];
                with_ev!(me_sync, |__f| match (e.filter, e.map) {
                    (Some((m, r)), _) => out.filter_map_connect(move |x: &Msg| (x.salt % (m.max(1) as u32) == r as u32).then(|| x.with_via(cid)), __f, me.clone()),
                    (None, true) => out.map_connect(move |x: &Msg| x.with_via(cid), __f, me.clone()),
                    (None, false) => out.connect(__f, me.clone()),
                })
            }
        }
        for (child, mailbox, name) in self.children {
            // A late mailbox is created here: no address of it exists before `add_submodel`.
            let mailbox = match mailbox {
                Ok(mb) => mb,
                Err(cap) => Mailbox::with_capacity(cap.max(1) as usize),
            };
            cx.add_submodel(child, mailbox, name);
        }
        self.node
    }
}

pub enum Sink {
    Buffer(EventBuffer<Msg>),
    Slot(EventSlot<Msg>),
}

/// Writer side of a bench sink, held by a model that connects it to one of its outputs at run time.
pub enum SinkW {
    Buffer(<EventBuffer<Msg> as EventSink<Msg>>::Writer),
    Slot(<EventSlot<Msg> as EventSink<Msg>>::Writer),
}

/// An `EventSink` that hands out clones of an existing writer.
struct WSink<W>(W);
impl<W: EventSinkWriter<Msg>> EventSink<Msg> for WSink<W> {
    type Writer = W;
    fn writer(&self) -> W {
        self.0.clone()
    }
}

pub enum Source {
    Event(EventSource<Msg>),
    Query(QuerySource<Msg, Reply>),
}

/// Scripted, recording clock.
pub struct ScriptClock {
    ctx: Arc<ExecCtx>,
    answers: Vec<Option<u64>>,
    calls: usize,
}

impl Clock for ScriptClock {
    fn synchronize(&mut self, deadline: MonotonicTime) -> SyncStatus {
        let ans = self.answers.get(self.calls).copied().flatten();
        self.calls += 1;
        self.ctx.log(Ev::ClockSync { time: tt(deadline), answer_lag: ans });
        // Waiting for the wall clock takes time: other threads (holders of `Scheduler`
        // handles) get to run while the simulation synchronises.
        rt::yield_now();
        match ans {
            None => SyncStatus::Synchronized,
            Some(lag) => SyncStatus::OutOfSync(Duration::from_nanos(lag)),
        }
    }
}

pub struct Bench {
    pub sim_init: SimInit,
    pub addrs: Vec<Address<Node>>,
    pub sinks: Vec<Sink>,
    pub sources: Vec<Source>,
    /// Mailboxes that are never added to the simulation but stay alive.
    pub orphans: Vec<Mailbox<Node>>,
}

fn connect_out(out: &mut Output<Msg>, e: &Edge, addrs: &[Address<Node>], sinks: &[Sink], ctx: &Arc<ExecCtx>, case: &Case) {
    let cid = e.cid;
    match e.target {
        Target::Node(t) => {
            let addr = addrs[t as usize].clone();
            with_ev!(case.nodes[t as usize].sync_inputs, |__f| match (e.filter, e.map) {
                (Some((m, r)), _) => out.filter_map_connect(
                    move |x: &Msg| (x.salt % (m.max(1) as u32) == r as u32).then(|| x.with_via(cid)),
                    __f,
                    addr,
                ),
                (None, true) => out.map_connect(move |x: &Msg| x.with_via(cid), __f, addr),
                (None, false) => out.connect(__f, addr),
            })
        }
        Target::Sink(s) => {
            let c = ctx.clone();
            let log = move |x: &Msg| {
                c.log(Ev::SinkWrite { sink: s, msg: x.id, via: cid, salt: x.salt });
                x.with_via(cid)
            };
            match (&sinks[s as usize], e.filter) {
                (Sink::Buffer(b), Some((m, r))) => {
                    out.filter_map_connect_sink(move |x: &Msg| (x.salt % (m.max(1) as u32) == r as u32).then(|| log(x)), b)
                }
                (Sink::Buffer(b), None) => out.map_connect_sink(log, b),
                (Sink::Slot(b), Some((m, r))) => {
                    out.filter_map_connect_sink(move |x: &Msg| (x.salt % (m.max(1) as u32) == r as u32).then(|| log(x)), b)
                }
                (Sink::Slot(b), None) => out.map_connect_sink(log, b),
            }
        }
    }
}

fn connect_req(req: &mut Requestor<Msg, Reply>, e: &Edge, addrs: &[Address<Node>], case: &Case) {
    let cid = e.cid;
    let Target::Node(t) = e.target else { return };
    let addr = addrs[t as usize].clone();
    let rmap = move |mut r: Reply| {
        r.rvia = cid;
        r
    };
    with_q!(case.nodes[t as usize].sync_inputs, |__f| match (e.filter, e.map) {
        (Some((m, r)), _) => req.filter_map_connect(
            move |x: &Msg| (x.salt % (m.max(1) as u32) == r as u32).then(|| x.with_via(cid)),
            rmap,
            __f,
            addr,
        ),
        (None, true) => req.map_connect(move |x: &Msg| x.with_via(cid), rmap, __f, addr),
        (None, false) => req.connect(__f, addr),
    })
}

/// A requestor port of a model: `Requestor`, or `UniRequestor` for some of the ports with exactly
/// one static connection (see `uni_port`); both must behave alike.
pub enum ReqPort {
    Multi(Requestor<Msg, Reply>),
    Uni(UniRequestor<Msg, Reply>),
}

/// Whether requestor port `p` of node `n` is built as a `UniRequestor`: one static connection
/// (a third of those, chosen by the connection identifier), not cloned by any other port and never
/// the target of a dynamic `Connect`.
pub fn uni_port(case: &Case, n: usize, p: usize) -> bool {
    let port = &case.nodes[n].reqs[p];
    if port.len() != 1 || port[0].cid == 0 || port[0].cid % 3 != 0 || !matches!(port[0].target, Target::Node(_)) {
        return false;
    }
    let cloned = case.nodes.iter().any(|o| o.reqs.iter().any(|q| q.first().map(|e| e.cid == 0 && e.target == Target::Node(n as u16) && e.filter == Some((255, p as u8))).unwrap_or(false)));
    let connected = case.nodes[n].on.iter().flatten().chain(case.nodes[n].init.iter()).any(|o| matches!(o, Op::Connect { port, .. } if *port as usize == 100 + p));
    !cloned && !connected
}

fn uni_req(e: &Edge, addrs: &[Address<Node>]) -> UniRequestor<Msg, Reply> {
    let cid = e.cid;
    let Target::Node(t) = e.target else { unreachable!() };
    let addr = addrs[t as usize].clone();
    let rmap = move |mut r: Reply| {
        r.rvia = cid;
        r
    };
    match (e.filter, e.map) {
        (Some((m, r)), _) => UniRequestor::with_filter_map(move |x: &Msg| (x.salt % (m.max(1) as u32) == r as u32).then(|| x.with_via(cid)), rmap, Node::on_query, addr),
        (None, true) => UniRequestor::with_map(move |x: &Msg| x.with_via(cid), rmap, Node::on_query, addr),
        (None, false) => UniRequestor::new(Node::on_query, addr),
    }
}

/// Builds the bench described by `case`. Mailboxes are created in node index
/// order, so the n-th mailbox has simulator identifier `1 + (n ^ chan_mask)`.
pub fn build(case: &Arc<Case>, ctx: &Arc<ExecCtx>) -> Bench {
    let n = case.nodes.len();
    let mut mailboxes: Vec<Option<Mailbox<Node>>> =
        case.nodes.iter().map(|s| Some(Mailbox::with_capacity(s.cap.max(1) as usize))).collect();
    let addrs: Vec<Address<Node>> = mailboxes.iter().map(|m| m.as_ref().unwrap().address()).collect();

    let sinks: Vec<Sink> = case
        .sinks
        .iter()
        .map(|s| match (s.buffer, s.open) {
            (Some(c), true) => Sink::Buffer(EventBuffer::with_capacity(c.max(1) as usize)),
            (Some(c), false) => Sink::Buffer(EventBuffer::with_capacity_closed(c.max(1) as usize)),
            (None, true) => Sink::Slot(EventSlot::new()),
            (None, false) => Sink::Slot(EventSlot::new_closed()),
        })
        .collect();

    // Nodes.
    let mut nodes: Vec<Option<Node>> = Vec::with_capacity(n);
    for (i, spec) in case.nodes.iter().enumerate() {
        let mut outs = Vec::new();
        for port in &spec.outs {
            let mut out = Output::new();
            for e in port {
                // Connections to a late mailbox are made by its owner's `build()`.
                if matches!(e.target, Target::Node(t) if case.nodes[t as usize].late_mailbox) {
                    continue;
                }
                connect_out(&mut out, e, &addrs, &sinks, ctx, case);
            }
            outs.push(out);
        }
        let mut reqs = Vec::new();
        for (p, port) in spec.reqs.iter().enumerate() {
            if uni_port(case, i, p) {
                reqs.push(ReqPort::Uni(uni_req(&port[0], &addrs)));
                continue;
            }
            let mut req = Requestor::new();
            for e in port {
                connect_req(&mut req, e, &addrs, case);
            }
            reqs.push(ReqPort::Multi(req));
        }
        let needs_addrs = spec.on.iter().flatten().chain(spec.init.iter()).any(|o| matches!(o, Op::Connect { .. }));
        nodes.push(Some(Node {
            idx: i as u16,
            ctx: ctx.clone(),
            case: case.clone(),
            outs,
            reqs,
            keys: Keys::default(),
            invocations: 0,
            plain: 0,
            addrs: if needs_addrs { addrs.clone() } else { Vec::new() },
            sinkw: if spec.on.iter().flatten().chain(spec.init.iter()).any(|o| matches!(o, Op::Connect { target, .. } if *target >= 10_000)) {
                sinks.iter().map(|s| match s { Sink::Buffer(b) => SinkW::Buffer(b.writer()), Sink::Slot(b) => SinkW::Slot(b.writer()) }).collect()
            } else {
                Vec::new()
            },
            sink_cids: Vec::new(),
            _tok: Tok::new(ctx, TokKind::Model),
        }));
    }
    // Port clones (C14c): port `p` of node `i` is replaced by a clone of port
    // `q` of an earlier node `j` when the spec's first edge of `p` has cid 0
    // and target Node(j) with filter Some((255, q)).
    for i in 0..n {
        for p in 0..case.nodes[i].outs.len() {
            if let Some(e) = case.nodes[i].outs[p].first() {
                if e.cid == 0 {
                    if let (Target::Node(j), Some((255, q))) = (e.target, e.filter) {
                        let c = nodes[j as usize].as_ref().unwrap().outs[q as usize].clone();
                        nodes[i].as_mut().unwrap().outs[p] = c;
                    }
                }
            }
        }
    }

    // Requestor clones, declared like output clones.
    for i in 0..n {
        for p in 0..case.nodes[i].reqs.len() {
            if let Some(e) = case.nodes[i].reqs[p].first() {
                if e.cid == 0 {
                    if let (Target::Node(j), Some((255, q))) = (e.target, e.filter) {
                        let ReqPort::Multi(c) = &nodes[j as usize].as_ref().unwrap().reqs[q as usize] else { unreachable!("a cloned port is never a UniRequestor") };
                        let c = c.clone();
                        nodes[i].as_mut().unwrap().reqs[p] = ReqPort::Multi(c);
                    }
                }
            }
        }
    }

    // Sources.
    let sources: Vec<Source> = case
        .sources
        .iter()
        .map(|s| {
            if s.query {
                let mut q = QuerySource::new();
                for e in &s.edges {
                    let cid = e.cid;
                    let Target::Node(t) = e.target else { continue };
                    let addr = addrs[t as usize].clone();
                    let rmap = move |mut r: Reply| {
                        r.rvia = cid;
                        r
                    };
                    with_q!(case.nodes[t as usize].sync_inputs, |__f| match (e.filter, e.map) {
                        (Some((m, r)), _) => q.filter_map_connect(
                            move |x: &Msg| (x.salt % (m.max(1) as u32) == r as u32).then(|| x.with_via(cid)),
                            rmap,
                            __f,
                            addr,
                        ),
                        (None, true) => q.map_connect(move |x: &Msg| x.with_via(cid), rmap, __f, addr),
                        (None, false) => q.connect(__f, addr),
                    })
                }
                Source::Query(q)
            } else {
                let mut src = EventSource::new();
                for e in &s.edges {
                    let cid = e.cid;
                    let Target::Node(t) = e.target else { continue };
                    let addr = addrs[t as usize].clone();
                    with_ev!(case.nodes[t as usize].sync_inputs, |__f| match (e.filter, e.map) {
                        (Some((m, r)), _) => src.filter_map_connect(
                            move |x: &Msg| (x.salt % (m.max(1) as u32) == r as u32).then(|| x.with_via(cid)),
                            __f,
                            addr,
                        ),
                        (None, true) => src.map_connect(move |x: &Msg| x.with_via(cid), __f, addr),
                        (None, false) => src.connect(__f, addr),
                    })
                }
                Source::Event(src)
            }
        })
        .collect();

    // Assemble the hierarchy bottom-up.
    fn take_proto(
        i: usize,
        case: &Case,
        nodes: &mut Vec<Option<Node>>,
        mailboxes: &mut Vec<Option<Mailbox<Node>>>,
        orphans: &mut Vec<Mailbox<Node>>,
    ) -> ProtoNode {
        let node = nodes[i].take().unwrap();
        let mut children = Vec::new();
        for c in 0..case.nodes.len() {
            if case.nodes[c].parent == Some(i as u16) {
                let mb = mailboxes[c].take().unwrap();
                if case.nodes[c].dead {
                    drop(mb);
                    nodes[c].take();
                    continue;
                }
                if !case.nodes[c].registered {
                    orphans.push(mb);
                    nodes[c].take();
                    continue;
                }
                let proto = take_proto(c, case, nodes, mailboxes, orphans);
                if case.nodes[c].late_mailbox {
                    // The pre-created mailbox (whose address was taken) is not used.
                    orphans.push(mb);
                    children.push((proto, Err(case.nodes[c].cap), case.nodes[c].name.clone()));
                } else {
                    children.push((proto, Ok(mb), case.nodes[c].name.clone()));
                }
            }
        }
        // Edges from direct children to this model, if its mailbox is a late one.
        let mut late_edges = Vec::new();
        if case.nodes[i].late_mailbox {
            let child_ids: Vec<usize> = (0..case.nodes.len()).filter(|c| case.nodes[*c].parent == Some(i as u16) && !case.nodes[*c].dead && case.nodes[*c].registered).collect();
            for (pos, c) in child_ids.iter().enumerate() {
                for (port, edges) in case.nodes[*c].outs.iter().enumerate() {
                    for e in edges {
                        if e.target == Target::Node(i as u16) && e.cid != 0 {
                            late_edges.push((pos, port, e.clone()));
                        }
                    }
                }
            }
        }
        ProtoNode { node, children, late_edges }
    }

    let mut orphans = Vec::new();
    let mut sim_init = if case.cfg.threads <= 1 { SimInit::with_num_threads(1) } else { SimInit::with_num_threads(case.cfg.threads as usize) };
    for i in 0..n {
        if case.nodes[i].parent.is_some() {
            continue;
        }
        let mb = mailboxes[i].take().unwrap();
        if case.nodes[i].dead {
            drop(mb);
            nodes[i].take();
            // Children of a dead top-level node are never built either.
            continue;
        }
        if !case.nodes[i].registered {
            orphans.push(mb);
            nodes[i].take();
            continue;
        }
        let proto = take_proto(i, case, &mut nodes, &mut mailboxes, &mut orphans);
        sim_init = sim_init.add_model(proto, mb, case.nodes[i].name.clone());
    }
    // Whatever was not consumed (descendants of dead/orphan nodes) stays alive
    // as orphan mailboxes.
    for (i, mb) in mailboxes.into_iter().enumerate() {
        if let Some(mb) = mb {
            if case.nodes[i].dead {
                drop(mb);
            } else {
                orphans.push(mb);
            }
        }
    }

    let mut clock = Some(ScriptClock { ctx: ctx.clone(), answers: case.cfg.clock.clone(), calls: 0 });
    // The builder calls commute: they are issued in one of the six possible orders.
    const ORDERS: [[u8; 3]; 6] = [[0, 1, 2], [0, 2, 1], [1, 0, 2], [1, 2, 0], [2, 0, 1], [2, 1, 0]];
    for step in ORDERS[(case.cfg.builder_order % 6) as usize] {
        match step {
            0 => sim_init = sim_init.set_clock(clock.take().unwrap()),
            1 => {
                if let Some(tol) = case.cfg.tolerance {
                    sim_init = sim_init.set_clock_tolerance(Duration::from_nanos(tol));
                }
            }
            _ => {
                if case.cfg.timeout_set && !case.cfg.timeout_late {
                    sim_init = sim_init.set_timeout(Duration::from_secs(3600));
                }
            }
        }
    }

    Bench { sim_init, addrs, sinks, sources, orphans }
}

pub type SharedKeys = Arc<Mutex<Keys>>;
