//! Engine E2: the same harness code on real threads, meant to run under Miri
//! (`cargo +nightly miri run`), which owns thread scheduling (seeded), emulates
//! C11 weak-memory behaviours and reports data races, use-after-free, double
//! free, invalid reads and leaks. One (Miri seed, case index) pair is one
//! exactly repeatable execution.
//!
//! usage: nxv e2 <ID> <first case index> <count> [verif seed]

use std::panic::{catch_unwind, AssertUnwindSafe};
use std::sync::Arc;

use crate::ctx::ExecCtx;
use crate::explore::{str_hash, Group};
use crate::hist::Hist;
use crate::outcome::{Failure, Outcome, SchedReport};
use crate::props;
use crate::rng::{mix, Rng};

pub fn main() {
    let args: Vec<String> = std::env::args().collect();
    if args.len() < 5 || args[1] != "e2" {
        eprintln!("usage: nxv e2 <ID> <first case index> <count> [verif seed]");
        std::process::exit(2);
    }
    let Some(prop) = props::find(&args[2]) else {
        eprintln!("unknown property {}", args[2]);
        std::process::exit(2);
    };
    let first: u64 = args[3].parse().unwrap_or(0);
    let count: u64 = args[4].parse().unwrap_or(1);
    let seed: u64 = args.get(5).and_then(|s| s.parse().ok()).unwrap_or(20260922);
    // Injected panics are part of the workload: keep them quiet.
    std::panic::set_hook(Box::new(|_| {}));
    let mut violations = 0;
    let mut executions = 0;
    // Open known findings of this property are reported as such, not as violations.
    // (handed over on the command line by `e2.py`: files are not accessible under Miri's isolation)
    let known: Vec<(String, String)> = match args.get(6).and_then(|s| serde_json::from_str::<Vec<(String, String)>>(s).ok()) {
        Some(k) => k,
        None => crate::report::load_known().findings.into_iter().filter(|f| f.status == "open" && f.property == prop.id).map(|f| (f.rule, f.key)).collect(),
    };
    // C14 under Miri: only the isolated task-set scenarios (whole simulations with many models and
    // queries are too slow to interpret in the quick tier).
    let comp_only = prop.id == "C14" || prop.id == "C15";
    let mut done = 0;
    for ci in first..first + count * 60 {
        if done >= count {
            break;
        }
        let case_seed = mix(mix(seed, str_hash(prop.id)), ci);
        let mut rng = Rng::new(case_seed);
        let base = crate::explore::gen_case(prop, &mut rng, false);
        if comp_only && base.comp.is_none() {
            continue;
        }
        done += 1;
        // Under Miri only the first variant of differential properties is executed.
        let Some(case) = crate::explore::gen_variants(prop, &base, false).into_iter().next() else { continue };
        let case = Arc::new(case);
        let ctx = ExecCtx::new(case.nodes.len());
        let (c2, x2) = (case.clone(), ctx.clone());
        let res = catch_unwind(AssertUnwindSafe(move || if c2.comp.is_some() { crate::comp::run_comp(&c2, &x2) } else { crate::driver::run_case(&c2, &x2) }));
        let (info, failure) = match res {
            Ok(i) => (Some(i), None),
            Err(p) => (None, Some(Failure::Panic(crate::driver::payload_text(&*p)))),
        };
        let log = std::mem::take(&mut *ctx.log.lock().unwrap_or_else(|e| e.into_inner()));
        let (live_tokens, double_drops, tokens_created, late_drops) = {
            let t = ctx.toks.lock().unwrap_or_else(|e| e.into_inner());
            (t.live.iter().map(|(k, v)| (*k, *v)).collect(), t.double_drops.clone(), t.created, t.late_drops.clone())
        };
        let out = Outcome {
            log,
            info,
            sched: SchedReport::default(),
            failure,
            live_tokens,
            double_drops,
            tokens_created,
            violations: std::mem::take(&mut *ctx.violations.lock().unwrap_or_else(|e| e.into_inner())),
            after_drop: std::mem::take(&mut *ctx.after_drop_activity.lock().unwrap_or_else(|e| e.into_inner())),
            last_panic: None,
            late_drops,
            drop_wakes: ctx.drop_wakes.load(std::sync::atomic::Ordering::Relaxed),
        };
        let h = Hist::build(&out.log);
        let mut g = Group::default();
        let viols = (prop.check)(&case, &out, &h, &mut g);
        executions += 1;
        let (listed, viols): (Vec<_>, Vec<_>) = viols.into_iter().partition(|v| known.iter().any(|(r, k)| *r == v.rule && (k.is_empty() || *k == v.key)));
        for v in &listed {
            println!("KNOWN-FINDING: property={} rule={} key={} (E2 case {})", prop.id, v.rule, v.key, ci);
        }
        for v in &viols {
            violations += 1;
            println!("violation: case={} rule={} key={} :: {}", ci, v.rule, v.key, v.detail);
        }
        if !viols.is_empty() {
            println!("E2-VIOLATION property={} case_index={} verif_seed={}", prop.id, ci, seed);
        }
    }
    println!("E2 {}: executions={} violations={}", prop.id, executions, violations);
    if violations > 0 {
        std::process::exit(1);
    }
    // The component harnesses join every thread they spawn: `main` returns normally, which lets
    // Miri run its leak check (it is skipped by `process::exit`). Whole simulations may leave a
    // detached helper thread behind (time-out of the single-threaded executor): those exit.
    if !matches!(prop.id, "C12" | "C13" | "C14" | "C15") {
        std::process::exit(0);
    }
}
