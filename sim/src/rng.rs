//! Small deterministic PRNG (splitmix64 seeding a xoshiro256**). Everything the
//! harness randomises derives from one `VERIF_SEED` through this module.

pub fn splitmix64(x: u64) -> u64 {
    let mut z = x.wrapping_add(0x9E37_79B9_7F4A_7C15);
    z = (z ^ (z >> 30)).wrapping_mul(0xBF58_476D_1CE4_E5B9);
    z = (z ^ (z >> 27)).wrapping_mul(0x94D0_49BB_1331_11EB);
    z ^ (z >> 31)
}

/// Mixes two integers into one seed.
pub fn mix(a: u64, b: u64) -> u64 {
    splitmix64(splitmix64(a) ^ b.wrapping_mul(0xD6E8_FEB8_6659_FD93))
}

#[derive(Clone, Debug)]
pub struct Rng {
    s: [u64; 4],
}

impl Rng {
    pub fn new(seed: u64) -> Self {
        let mut x = seed;
        let mut s = [0u64; 4];
        for v in s.iter_mut() {
            x = splitmix64(x);
            *v = x;
        }
        Self { s }
    }
    pub fn next_u64(&mut self) -> u64 {
        let r = self.s[1].wrapping_mul(5).rotate_left(7).wrapping_mul(9);
        let t = self.s[1] << 17;
        self.s[2] ^= self.s[0];
        self.s[3] ^= self.s[1];
        self.s[1] ^= self.s[2];
        self.s[0] ^= self.s[3];
        self.s[2] ^= t;
        self.s[3] = self.s[3].rotate_left(45);
        r
    }
    /// Uniform in `0..n` (n > 0).
    pub fn below(&mut self, n: u64) -> u64 {
        debug_assert!(n > 0);
        ((self.next_u64() as u128 * n as u128) >> 64) as u64
    }
    pub fn usize(&mut self, n: usize) -> usize {
        self.below(n as u64) as usize
    }
    /// Uniform in `lo..=hi`.
    pub fn range(&mut self, lo: u64, hi: u64) -> u64 {
        lo + self.below(hi - lo + 1)
    }
    /// True with probability `pct` percent.
    pub fn pct(&mut self, pct: u64) -> bool {
        self.below(100) < pct
    }
    pub fn pick<'a, T>(&mut self, v: &'a [T]) -> &'a T {
        &v[self.usize(v.len())]
    }
    pub fn shuffle<T>(&mut self, v: &mut [T]) {
        for i in (1..v.len()).rev() {
            let j = self.usize(i + 1);
            v.swap(i, j);
        }
    }
}

/// FNV-1a style running hash used for interleaving / history identities.
#[derive(Clone, Copy, Debug)]
pub struct Hasher64(pub u64);
impl Hasher64 {
    pub fn new() -> Self {
        Self(0xcbf2_9ce4_8422_2325)
    }
    #[inline]
    pub fn add(&mut self, v: u64) {
        self.0 = (self.0 ^ v).wrapping_mul(0x0000_0100_0000_01B3);
        self.0 ^= self.0 >> 29;
    }
    pub fn add_str(&mut self, s: &str) {
        for b in s.bytes() {
            self.add(b as u64);
        }
        self.add(0xff);
    }
    pub fn finish(&self) -> u64 {
        splitmix64(self.0)
    }
}
