//! Plain data shared by both engines: the outcome of one execution and the
//! description / report of a schedule.

use serde::{Deserialize, Serialize};

use crate::ctx::{Ev, TokKind};
use crate::driver::RunInfo;

#[derive(Clone, Debug, PartialEq)]
pub enum Failure {
    /// All unfinished simulated threads are blocked.
    Deadlock(String),
    /// More scheduling points than the step budget.
    StepLimit,
    /// A panic escaped a simulated thread.
    Panic(String),
}

pub struct Outcome {
    pub log: Vec<Ev>,
    pub info: Option<RunInfo>,
    pub sched: SchedReport,
    pub failure: Option<Failure>,
    pub live_tokens: Vec<(u64, TokKind)>,
    pub double_drops: Vec<u64>,
    pub tokens_created: u64,
    pub violations: Vec<(String, String)>,
    pub after_drop: Vec<String>,
    pub last_panic: Option<String>,
    pub late_drops: Vec<u64>,
    pub drop_wakes: u64,
}

/// Scheduling strategy for one execution.
#[derive(Clone, Debug, Serialize, Deserialize, PartialEq)]
pub enum SchedKind {
    /// Uniform random choice among runnable threads at every point;
    /// `sticky` percent of the time the current thread is kept if runnable.
    Random { sticky: u8 },
    /// PCT: random distinct priorities, `depth - 1` priority change points
    /// sampled in `1..=est_steps`.
    Pct { depth: u8, est_steps: u32 },
    /// Lowest-numbered runnable thread that is not the yielding one, rotating.
    RoundRobin,
    /// Uniform random choice with stalls: at every choice point the running thread is, with
    /// probability `per_mille`/1000, set aside for up to `max_len` choice points (a slow or
    /// preempted thread: whatever it was about to do happens much later).
    Stall { per_mille: u16, max_len: u32 },
}

#[derive(Clone, Debug, Serialize, Deserialize, PartialEq)]
pub struct SchedSpec {
    pub kind: SchedKind,
    pub seed: u64,
    /// If set, these decisions are replayed verbatim (task id per scheduling
    /// point, then the strategy takes over if the list is exhausted).
    #[serde(default, skip_serializing_if = "Option::is_none")]
    pub replay: Option<Vec<u16>>,
    /// Replay expressed as context switches only: (decision index, task).
    /// Between listed points the current task is kept while runnable, else
    /// the lowest-numbered runnable task runs.
    #[serde(default, skip_serializing_if = "Option::is_none")]
    pub switches: Option<Vec<(u32, u16)>>,
}

#[derive(Clone, Debug, Default)]
pub struct SchedReport {
    /// Task chosen at every scheduling point.
    pub decisions: Vec<u16>,
    /// Number of scheduling points with more than one runnable task.
    pub choice_points: u32,
    pub context_switches: u32,
    pub decision_hash: u64,
    pub max_tasks: u16,
    pub randoms: u32,
    /// Set if a replayed decision named a task that was not runnable.
    pub replay_diverged: bool,
}

