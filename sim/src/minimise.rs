//! Minimisation of a failing (case, schedule) pair before it is reported.

use crate::explore::{Found, PropSpec};

pub fn minimise(_prop: &'static PropSpec, f: &Found) -> Found {
    f.clone()
}
