//! Minimisation of a failing (case, schedule) pair before it is reported.
//!
//! 1. Workload: greedy delta debugging over driver commands, handler / init
//!    operations, auxiliary threads, component operations and the thread
//!    count. A candidate is kept if the same rule fires under the recorded
//!    schedule or under any of a few fresh schedules (the schedule of a changed
//!    program cannot in general be reused).
//! 2. Schedule: the recorded decision sequence of the final workload is reduced
//!    to its context switches and switches are removed while the rule still
//!    fires ("keep running the current thread if it is runnable").
//!
//! Everything is bounded by a wall-clock budget; the result is re-verified by
//! the caller's replay command in a fresh process.

use std::sync::Arc;
use std::time::{Duration, Instant};

use crate::case::*;
use crate::explore::{Found, PropSpec};

#[cfg(feature = "e1")]
struct Ctx {
    prop: &'static PropSpec,
    rule: String,
    key: String,
    start: Instant,
    budget: Duration,
    runs: u64,
}

#[cfg(feature = "e1")]
impl Ctx {
    fn expired(&self) -> bool {
        self.start.elapsed() > self.budget || self.runs > 6_000
    }

    /// Runs `case` under `spec`; returns the violation and the decisions if the rule fires.
    fn fires(&mut self, case: &Arc<Case>, spec: &crate::outcome::SchedSpec) -> Option<(crate::oracle::Violation, Vec<u16>)> {
        self.runs += 1;
        let out = crate::engine::execute(case, spec);
        let h = crate::hist::Hist::build(&out.log);
        let mut g = crate::explore::Group::default();
        let viols = (self.prop.check)(case, &out, &h, &mut g);
        viols.into_iter().find(|v| v.rule == self.rule && v.key == self.key).map(|v| (v, out.sched.decisions.clone()))
    }

    /// Tries the recorded schedule first, then a few fresh ones.
    fn fires_any(&mut self, case: &Arc<Case>, base: &Found, fresh: u32) -> Option<(crate::outcome::SchedSpec, crate::oracle::Violation, Vec<u16>)> {
        let mut spec = base.spec.clone();
        spec.replay = Some(base.decisions.clone());
        spec.switches = None;
        if let Some((v, d)) = self.fires(case, &spec) {
            return Some((spec, v, d));
        }
        if crate::explore::is_single_schedule(case) {
            return None;
        }
        for k in 0..fresh {
            if self.expired() {
                break;
            }
            let spec = crate::explore::portfolio(crate::rng::mix(base.case_seed, 0x4D1), k, (base.decisions.len() as u32 / 2).max(8), false);
            if let Some((v, d)) = self.fires(case, &spec) {
                return Some((spec, v, d));
            }
        }
        None
    }
}

/// All one-step reductions of a case.
fn reductions(c: &Case) -> Vec<Case> {
    let mut out = Vec::new();
    // driver commands (keep a trailing DropSim)
    for i in (0..c.script.len()).rev() {
        if matches!(c.script[i], Cmd::DropSim) {
            continue;
        }
        let mut x = c.clone();
        x.script.remove(i);
        out.push(x);
    }
    // auxiliary threads' commands
    for a in 0..c.aux.len() {
        for i in (0..c.aux[a].len()).rev() {
            let mut x = c.clone();
            x.aux[a].remove(i);
            out.push(x);
        }
    }
    // handler and init operations
    for n in 0..c.nodes.len() {
        for k in 0..c.nodes[n].on.len() {
            for i in (0..c.nodes[n].on[k].len()).rev() {
                let mut x = c.clone();
                x.nodes[n].on[k].remove(i);
                out.push(x);
            }
        }
        for i in (0..c.nodes[n].init.len()).rev() {
            let mut x = c.clone();
            x.nodes[n].init.remove(i);
            out.push(x);
        }
    }
    // thread count
    if c.cfg.threads > 2 {
        let mut x = c.clone();
        x.cfg.threads = 2;
        out.push(x);
    }
    // scripted clock answers
    if c.cfg.clock.iter().filter(|a| a.is_some()).count() > 1 {
        for i in 0..c.cfg.clock.len() {
            if c.cfg.clock[i].is_some() {
                let mut x = c.clone();
                x.cfg.clock[i] = None;
                out.push(x);
            }
        }
    }
    // component scenarios
    match &c.comp {
        Some(Comp::Queue(q)) => {
            for p in 0..q.producers.len() {
                for i in (0..q.producers[p].len()).rev() {
                    let mut x = c.clone();
                    if let Some(Comp::Queue(qq)) = x.comp.as_mut() {
                        qq.producers[p].remove(i);
                    }
                    out.push(x);
                }
            }
            for i in (0..q.consumer.len()).rev() {
                let mut x = c.clone();
                if let Some(Comp::Queue(qq)) = x.comp.as_mut() {
                    qq.consumer.remove(i);
                }
                out.push(x);
            }
        }
        Some(Comp::Chan(ch)) => {
            for p in 0..ch.producers.len() {
                if ch.producers[p].len() > 1 && ch.sender_close.is_none() {
                    let mut x = c.clone();
                    if let Some(Comp::Chan(cc)) = x.comp.as_mut() {
                        cc.producers[p].pop();
                        if let Some(k) = cc.close_after {
                            let total: usize = cc.producers.iter().map(|v| v.len()).sum();
                            cc.close_after = Some(k.min(total as u8));
                        }
                    }
                    out.push(x);
                }
            }
        }
        Some(Comp::Task(t)) => {
            for th in 0..t.threads.len() {
                for i in (0..t.threads[th].len()).rev() {
                    let mut x = c.clone();
                    if let Some(Comp::Task(tt)) = x.comp.as_mut() {
                        tt.threads[th].remove(i);
                    }
                    out.push(x);
                }
            }
        }
        Some(Comp::Time(t)) => {
            for r in 0..t.readers.len() {
                for i in (0..t.readers[r].len()).rev() {
                    let mut x = c.clone();
                    if let Some(Comp::Time(tt)) = x.comp.as_mut() {
                        tt.readers[r].remove(i);
                    }
                    out.push(x);
                }
            }
            if t.writes > 1 {
                let mut x = c.clone();
                if let Some(Comp::Time(tt)) = x.comp.as_mut() {
                    tt.writes -= 1;
                }
                out.push(x);
            }
        }
        Some(Comp::Set(t)) => {
            for w in 0..t.wakers.len() {
                // only wake-ups of indices that are woken more than once can be removed
                for i in (0..t.wakers[w].len()).rev() {
                    let idx = t.wakers[w][i].0;
                    if t.wakers.iter().flatten().filter(|x| x.0 == idx).count() > 1 {
                        let mut x = c.clone();
                        if let Some(Comp::Set(tt)) = x.comp.as_mut() {
                            tt.wakers[w].remove(i);
                        }
                        out.push(x);
                    }
                }
            }
            if !t.stale.is_empty() {
                let mut x = c.clone();
                if let Some(Comp::Set(tt)) = x.comp.as_mut() {
                    tt.stale.pop();
                }
                out.push(x);
            }
        }
        None => {}
    }
    out
}

#[cfg(not(feature = "e1"))]
pub fn minimise(_prop: &'static PropSpec, f: &Found) -> Found {
    let _ = (reductions, Duration::ZERO, Instant::now());
    f.clone()
}

#[cfg(feature = "e1")]
pub fn minimise(prop: &'static PropSpec, f: &Found) -> Found {
    // Not minimisable in-process: a killed worker (the call never reaches a scheduling point)
    // and rules that compare several executions of one case.
    if (f.violation.rule == "no_return" && f.violation.key == "process_killed") || f.violation.rule == "c04_executor_divergence" || f.violation.rule == "c10_partition_dependence" || f.decisions.is_empty() {
        return f.clone();
    }
    let budget = Duration::from_secs(std::env::var("NXV_MIN_BUDGET").ok().and_then(|s| s.parse().ok()).unwrap_or(40));
    let mut cx = Ctx { prop, rule: f.violation.rule.clone(), key: f.violation.key.clone(), start: Instant::now(), budget, runs: 0 };
    let mut best = f.clone();
    // The recorded pair must reproduce to begin with.
    {
        let case = Arc::new(best.case.clone());
        match cx.fires_any(&case, &best, 0) {
            Some((spec, v, d)) => {
                best.spec = spec;
                best.violation = v;
                best.decisions = d;
            }
            None => return f.clone(),
        }
    }
    let size0 = (best.case.script.len(), best.decisions.len());
    // 1. workload
    let mut progress = true;
    while progress && !cx.expired() {
        progress = false;
        for cand in reductions(&best.case) {
            if cx.expired() {
                break;
            }
            let case = Arc::new(cand);
            if let Some((spec, v, d)) = cx.fires_any(&case, &best, 12) {
                best.case = (*case).clone();
                best.spec = spec;
                best.violation = v;
                best.decisions = d;
                progress = true;
                break;
            }
        }
    }
    // 2. schedule: remove context switches
    let case = Arc::new(best.case.clone());
    if !crate::explore::is_single_schedule(&case) {
        let mut sw = crate::sched::decisions_to_switches(&best.decisions);
        let mk = |sw: &Vec<(u32, u16)>| crate::outcome::SchedSpec { kind: crate::outcome::SchedKind::RoundRobin, seed: best.spec.seed, replay: None, switches: Some(sw.clone()) };
        if cx.fires(&case, &mk(&sw)).is_some() {
            let mut chunk = (sw.len() / 2).max(1);
            while chunk >= 1 && !cx.expired() {
                let mut i = 0;
                let mut removed = false;
                while i < sw.len() && !cx.expired() {
                    let mut cand = sw.clone();
                    let hi = (i + chunk).min(cand.len());
                    cand.drain(i..hi);
                    if let Some((v, d)) = cx.fires(&case, &mk(&cand)) {
                        sw = cand;
                        best.violation = v;
                        best.decisions = d;
                        removed = true;
                    } else {
                        i += chunk;
                    }
                }
                if chunk == 1 && !removed {
                    break;
                }
                chunk = if chunk == 1 { 1 } else { chunk / 2 };
                if chunk == 1 && !removed && sw.len() <= 1 {
                    break;
                }
            }
            best.spec = mk(&sw);
        }
    }
    eprintln!(
        "minimised {} / {}: script {} -> {} commands, schedule {} -> {} scheduling points ({} context switches kept), {} executions, {:.1}s",
        prop.id,
        best.violation.rule,
        size0.0,
        best.case.script.len(),
        size0.1,
        best.decisions.len(),
        best.spec.switches.as_ref().map(|s| s.len()).unwrap_or(0),
        cx.runs,
        cx.start.elapsed().as_secs_f64()
    );
    best
}
