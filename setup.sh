#!/bin/bash
# Builds the framework from files on disk only (offline).
set -eu
V="${NXV_DIR:-/verif}"
cd "$V"
export CARGO_NET_OFFLINE=true
mkdir -p target evidence replays
RUSTFLAGS="--cfg nexosim_verif --cfg nexosim_verif_shuttle --cfg async_event_loom" \
  cargo build --release --offline --target-dir $V/target/e1
echo "setup ok"
