#!/bin/bash
# Builds the framework from files on disk only (offline).
set -eu
V="${NXV_DIR:-/verif}"
cd "$V"
export CARGO_NET_OFFLINE=true
mkdir -p target evidence replays
RUSTFLAGS="--cfg nexosim_verif --cfg nexosim_verif_shuttle --cfg async_event_loom" \
  cargo build --release --offline --target-dir $V/target/e1
# Engine E2: pre-build the harness for Miri (dependencies are interpreted, the build only checks them).
RUSTFLAGS="--cfg nexosim_verif" MIRIFLAGS="-Zmiri-isolation-error=warn-nobacktrace" CARGO_TARGET_DIR=$V/target/miri \
  cargo +nightly miri run --offline --no-default-features --quiet -- e2 C15 0 1 20260922 "[]" >$V/target/build-e2.log 2>&1 || { echo "E2 (Miri) build failed, see $V/target/build-e2.log"; tail -20 $V/target/build-e2.log; exit 1; }
echo "setup ok"
