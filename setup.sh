#!/bin/bash
# Builds the framework from files on disk only (offline).
set -eu
cd /verif
export CARGO_NET_OFFLINE=true
mkdir -p target evidence replays
RUSTFLAGS="--cfg nexosim_verif --cfg nexosim_verif_shuttle --cfg async_event_loom" \
  cargo build --release --offline --target-dir /verif/target/e1
echo "setup ok"
