#!/bin/bash
# quick tier under several seeds: any VIOLATION on the unchanged tree is an alarm to investigate
export NXV_DIR=$PWD
./setup.sh > /dev/null 2>&1 || { echo "setup failed"; exit 2; }
for s in ${SWEEP_SEEDS:-1 2 3 4 5 6}; do
  for p in C01 C02 C03 C04 C05 C06 C07 C08 C09 C10 C11 C12 C13 C14 C15 C16 C17 C18 C19; do
    out=$(VERIF_SEED=$s NXV_SKIP_E2=1 ./check $p quick 2>&1); rc=$?
    echo "seed=$s $p rc=$rc $(echo "$out" | grep -E "^C[0-9]+ quick:" | cut -c1-120)"
    echo "$out" | grep -E "^VIOLATION|^violation|harness error" | head -5
  done
done
