#!/usr/bin/env python3
"""Engine E2 step of a check: runs the harness of one property on real threads under Miri
(`cargo +nightly miri run`, many seeds), which owns thread scheduling, emulates C11 weak-memory
behaviour and reports data races / use-after-free / double free / leaks.

usage: e2.py <verif dir> <ID> <quick|thorough> [--replay <file>]
exit code: 0 clean, 1 violation (prints `VIOLATION property=<id> replay=<path>`), 2 harness error.
The evidence file of the property (written by the E1 step) gets an `e2` section.
"""
import json, os, re, subprocess, sys, time

BUDGET = {
    # id: (quick (seeds, cases), thorough (seeds, cases))
    # (many cases rather than many Miri seeds: whether a scenario that can go wrong is generated at
    # all matters more than how often each one is re-scheduled)
    "C12": ((8, 96), (32, 160)),
    "C13": ((8, 96), (32, 160)),
    "C15": ((8, 96), (32, 160)),
    "C05": ((2, 8), (16, 24)),
    "C19": ((2, 3), (8, 6)),
    "C04": ((2, 8), (16, 24)),
    "C14": ((8, 48), (16, 96)),
}

BAD = re.compile(r"error: Undefined Behavior|Data race detected|error: memory leaked|error: the evaluated program|E2-VIOLATION|error: unsupported operation|panicked at")


def miri(verif, prop, seeds, first, count, verif_seed, rate="0.1"):
    lo, hi = seeds
    env = dict(os.environ)
    env["RUSTFLAGS"] = "--cfg nexosim_verif"
    # Isolation stays enabled (file and environment accesses fail instead of reaching the host):
    # host entropy (std's HashMap keys) and the host clock would make an execution depend on
    # more than (Miri seed, case index), and a replay would not be exact.
    env["MIRIFLAGS"] = f"-Zmiri-many-seeds={lo}..{hi} -Zmiri-isolation-error=warn-nobacktrace -Zmiri-preemption-rate={rate}"
    env["CARGO_TARGET_DIR"] = os.path.join(verif, "target", "miri")
    env["CARGO_NET_OFFLINE"] = "true"
    # open known findings of the property travel on the command line (no file access under isolation)
    try:
        kf = json.load(open(os.path.join(verif, "known_findings.json")))
        known = [[f["rule"], f.get("key", "")] for f in kf.get("findings", []) if f.get("status") == "open" and f.get("property") == prop]
    except Exception:
        known = []
    cmd = ["cargo", "+nightly", "miri", "run", "--offline", "--no-default-features", "--quiet", "--",
           "e2", prop, str(first), str(count), str(verif_seed), json.dumps(known)]
    t0 = time.time()
    p = subprocess.run(cmd, cwd=verif, env=env, stdout=subprocess.PIPE, stderr=subprocess.STDOUT, text=True)
    out = "\n".join(l for l in p.stdout.splitlines() if not l.startswith("warning") and "never used" not in l)
    return p.returncode, out, time.time() - t0, " ".join(cmd), env["MIRIFLAGS"]


def main():
    verif, prop, tier = sys.argv[1], sys.argv[2], sys.argv[3]
    verif_seed = int(os.environ.get("VERIF_SEED", "20260922"))
    if len(sys.argv) >= 6 and sys.argv[4] == "--replay":
        rf = json.load(open(sys.argv[5]))
        rc, out, wall, cmd, flags = miri(verif, rf["property"], (rf["miri_seed"], rf["miri_seed"] + 1), rf["first_case"], rf["cases"], rf["verif_seed"], rf.get("preemption_rate", "0.1"))
        print(out[-4000:])
        if rc != 0 or BAD.search(out):
            print(f"VIOLATION property={rf['property']} replay={sys.argv[5]}")
            return 1
        print("replay did not reproduce the E2 failure")
        return 0
    if prop not in BUDGET:
        return 0
    (seeds, cases) = BUDGET[prop][1 if tier == "thorough" else 0]
    rc, out, wall, cmd, flags = miri(verif, prop, (0, seeds), 0, cases, verif_seed)
    executions = sum(int(m.group(1)) for m in re.finditer(r"executions=(\d+)", out))
    failed = rc != 0 or bool(BAD.search(out))
    ev_path = os.path.join(verif, "evidence", f"{prop}.json")
    try:
        ev = json.load(open(ev_path))
    except Exception:
        ev = None
    status = 0
    if failed:
        # Find the first failing Miri seed for an exact replay file.
        bad_seed = None
        for s in range(seeds):
            rc1, out1, _, _, _ = miri(verif, prop, (s, s + 1), 0, cases, verif_seed)
            if rc1 != 0 or BAD.search(out1):
                bad_seed, out = s, out1
                break
        if bad_seed is None and executions == 0:
            print("harness error: the E2 (Miri) step could not run:\n" + out[-3000:], file=sys.stderr)
            return 2
        os.makedirs(os.path.join(verif, "replays"), exist_ok=True)
        rpath = os.path.join(verif, "replays", f"{prop}-e2_miri-{verif_seed}-{bad_seed if bad_seed is not None else 'x'}.json")
        m = BAD.search(out)
        json.dump({"property": prop, "engine": "E2-miri", "rule": "e2_miri", "verif_seed": verif_seed, "miri_seed": bad_seed if bad_seed is not None else 0,
                   "first_case": 0, "cases": cases, "preemption_rate": "0.1", "miriflags": flags, "command": cmd,
                   "what": m.group(0) if m else "non-zero exit", "output_tail": out[-6000:]}, open(rpath, "w"), indent=1)
        print("violation: rule=e2_miri :: Miri reported: " + (m.group(0) if m else "failure") + "\n" + "\n".join(out.splitlines()[-25:]))
        print(f"VIOLATION property={prop} replay={rpath}")
        status = 1
    print(f"{prop} {tier} E2 (Miri): seeds=0..{seeds} cases=0..{cases} executions={executions} wall={wall:.1f}s {'FAILED' if failed else 'clean'}")
    if ev is not None:
        ev["coverage"]["e2_miri"] = {
            "engine": "E2: harness on real threads interpreted by Miri (seeded thread scheduling, C11 weak-memory emulation, data-race / use-after-free / double-free / leak detection)",
            "miri_seeds": seeds, "cases_per_seed": cases, "executions": executions, "wall_s": wall, "flags": flags,
            "clean": not failed, "substituted": ["Clock -> scripted recording clock (whole-system cases only)"], "isolation": "enabled (no host entropy, clock or files): one (Miri seed, case index) pair is one exactly repeatable execution",
        }
        if failed:
            ev["violations"] = ev.get("violations", 0) + 1
        json.dump(ev, open(ev_path, "w"), indent=1)
    return status


sys.exit(main())
