#!/bin/bash
# thorough tier of every check once (E1; E2 with NXV_SKIP_E2 unset for the listed properties)
export NXV_DIR=$PWD
./setup.sh > /dev/null 2>&1 || { echo "setup failed"; exit 2; }
for p in ${SWEEP_PROPS:-C01 C02 C03 C04 C05 C06 C07 C08 C09 C10 C11 C12 C13 C14 C15 C16 C17 C18 C19}; do
  t0=$(date +%s)
  out=$(./check $p thorough 2>&1); rc=$?
  echo "$p rc=$rc wall=$(( $(date +%s) - t0 ))s $(echo "$out" | grep -E "^C[0-9]+ thorough" | cut -c1-170 | tr '\n' ' ')"
  echo "$out" | grep -E "^VIOLATION|^violation|harness error" | head -5
done
